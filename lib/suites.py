"""Suites: which work items (binary, crate configuration, item key) decide which property at which tier.

An item key is a comma separated list of name=value pairs understood by the polldfs drivers:
  fam   family            cont  container (vec | array | tuple | ext)        n   number of children
  p     Pending answers per scripted child       i   items per scripted stream
  sw    self-wake answers (default 1)            ee  streams may end early (default 1)
  st    stale / repeated / finished-child wake-ups between polls (budget)
  sp    spurious polls (budget)                  ip  wake of another child's waker from inside a poll (budget)
  dr    drop of the combinator at any step (budget, terminal)     pa  one injected panic in a child's poll
  sh    scripted streams report honest size hints (default 1; 0 = the default hint (0, None))
  dw    budget: a leaf dropped inside a combinator's poll wakes a pending sibling from its destructor
  dev   deviation bound (absent = every choice free)              por 0 = explore every order of wake-ups
  nv    bitmask of children that never complete  al  bitmask of stream inputs that always have an item
  eg    bitmask of children that are never Pending                mi  stop after this many yielded items
  nest/ncont/nin/npos   one nested combinator (family, container, size, position)
  groups: init, cap, iter, mm (max members), ops (operation budget), rm, rs, ext, keyed
  co-streams: src, l, stack, tn, lm, term, wp, wnv
"""

ALL3 = ("std", "alloc", "nostd")
A2 = ("std", "alloc")
STD = ("std",)

COMMON_ASSUMPTIONS = [
    "children obey the Future/Stream contract except where the alphabet says otherwise (stale, repeated and in-poll wake-ups are explored; re-entrant parent wakers are not)",
    "behaviours needing more children, Pending answers, items, operations or deviations than the listed bounds are not covered",
    "the harness (polldfs core: chooser, scripted children, monitors, reference models) is trusted; every reported failure is replayed twice and must reproduce identically",
    "no allocation failure, no panics inside Drop impls of children (destructors that wake a sibling are part of the alphabet: dw)",
    "containers are at most 200 (Vec), 65 (array), 12 (tuple), 16 (group members) wide: a defect that needs more - e.g. 65 536 children for a 16-bit truncation - is outside every suite",
    "scripted streams report honest size hints (upper bound = items still available) unless sh=0; hints that lie are outside the Stream contract and not explored",
]

FUT_CONT = {"join": ["vec", "array", "tuple", "ext"], "try_join": ["vec", "array", "tuple"], "race": ["vec", "array", "tuple", "ext"], "race_ok": ["vec", "array", "tuple"]}
STR_CONT = {"merge": ["vec", "array", "tuple", "ext"], "zip": ["vec", "array", "tuple", "ext"], "chain": ["vec", "array", "tuple", "ext"]}


def key(**kw):
    return ",".join("%s=%s" % (k, v) for k, v in kw.items() if v is not None)


def cfgs_for(cont, base=ALL3):
    return tuple(c for c in base if not (cont == "vec" and c == "nostd"))


def fut(fam, cont, n, base=ALL3, **kw):
    if cont == "ext" and n != 2:
        return []
    return [("mc_futures", c, key(fam=fam, cont=cont, n=n, **kw)) for c in cfgs_for(cont, base)]


def strm(fam, cont, n, base=ALL3, **kw):
    if cont == "ext" and n != 2:
        return []
    return [("mc_streams", c, key(fam=fam, cont=cont, n=n, **kw)) for c in cfgs_for(cont, base)]


def grp(fam, base=A2, **kw):
    return [("mc_groups", c, key(fam=fam, **kw)) for c in base if c != "nostd"]


def co(base=A2, **kw):
    return [("mc_costream", c, key(**kw)) for c in base if c != "nostd"]


def masks(n, k):
    """all bitmasks over n positions with exactly k bits set"""
    import itertools
    return [sum(1 << i for i in comb) for comb in itertools.combinations(range(n), k)]


# ---------------------------------------------------------------------------------------------
# building blocks
# ---------------------------------------------------------------------------------------------

def fut_small(fams, tier, base=ALL3, **extra):
    """fully enumerated small shapes of the future combinators, every container"""
    out = []
    for fam in fams:
        for cont in FUT_CONT[fam]:
            if tier == "quick":
                out += fut(fam, cont, 2, base, p=2, st=1, sp=1, ip=1, **extra)
                out += fut(fam, cont, 3, base, p=1, st=1, sp=1, **extra)
            else:
                out += fut(fam, cont, 2, base, p=3, st=2, sp=1, ip=1, **extra)
                out += fut(fam, cont, 3, base, p=2, st=1, sp=1, ip=1, **extra)
                out += fut(fam, cont, 4, base, p=1, st=1, sp=1, **extra)
                out += fut(fam, cont, 3, base, p=1, st=2, sp=1, por=0, **extra)
    return out


def str_small(fams, tier, base=ALL3, **extra):
    out = []
    for fam in fams:
        for cont in STR_CONT[fam]:
            if tier == "quick":
                out += strm(fam, cont, 2, base, p=1, i=2, st=1, sp=1, **extra)
                out += strm(fam, cont, 3, base, p=1, i=1, st=1, **extra)
                out += strm(fam, cont, 2, base, p=1, i=2, sh=0, **extra)
            else:
                out += strm(fam, cont, 2, base, p=2, i=2, sp=1, sh=0, **extra)
                out += strm(fam, cont, 2, base, p=2, i=2, st=1, sp=1, ip=1, **extra)
                out += strm(fam, cont, 3, base, p=1, i=2, st=1, sp=1, **extra)
                out += strm(fam, cont, 3, base, p=2, i=1, st=1, **extra)
                out += strm(fam, cont, 2, base, p=1, i=3, st=1, sp=1, **extra)
                out += strm(fam, cont, 3, base, p=1, i=1, st=2, por=0, **extra)
    return out


WIDE_TUPLE = [5, 8, 12]
WIDE_ARRAY = [8, 23, 65]
WIDE_VEC = [22, 23, 24, 64, 65, 66, 128, 129, 200]


def wide(kind, fams, tier, base=ALL3, **extra):
    """deviation-bounded exploration of wide containers"""
    mk = fut if kind == "fut" else strm
    out = []
    quick = tier == "quick"
    for fam in fams:
        budget = dict(p=1, st=1, sp=1, ip=1)
        if kind == "str":
            budget["i"] = 1
        budget.update(extra)
        for n in WIDE_TUPLE:
            out += mk(fam, "tuple", n, base, dev=2 if (quick or n > 8) else 3, **budget)
        for n in WIDE_ARRAY:
            b = dict(budget, ip=budget["ip"] if n <= 8 else 0)
            out += mk(fam, "array", n, base, dev=(2 if n <= 8 else 1) if quick else 2, **b)
        for n in WIDE_VEC:
            b = dict(budget, ip=0)
            out += mk(fam, "vec", n, base, dev=1 if (quick or n > 66) else 2, **b)
    return out


FUT_NEST = ["join", "try_join", "race", "race_ok"]
STR_NEST = ["merge", "zip", "chain"]


def nested(tier, base=ALL3, **extra):
    out = []
    p = 1
    for outer in FUT_NEST:
        for inner in FUT_NEST:
            # try_join / race_ok need Result-typed children: only combine like with like
            if (outer in ("try_join", "race_ok")) != (inner in ("try_join", "race_ok")):
                continue
            for cont, ncont in (("vec", "vec"), ("tuple", "array")):
                out += fut(outer, cont, 2, base, nest=inner, ncont=ncont, nin=2, npos=0, p=p, st=1 if tier != "quick" else 0, sp=1, **extra)
                if tier != "quick":
                    out += fut(outer, cont, 2, base, nest=inner, ncont=ncont, nin=2, npos=1, p=p, st=1, sp=1, **extra)
    for outer in STR_NEST:
        for inner in STR_NEST:
            for cont, ncont in (("vec", "vec"), ("tuple", "array")):
                out += strm(outer, cont, 2, base, nest=inner, ncont=ncont, nin=2, npos=0, p=p, i=1, st=1 if tier != "quick" else 0, sp=1, **extra)
                if tier != "quick":
                    out += strm(outer, cont, 2, base, nest=inner, ncont=ncont, nin=2, npos=1, p=p, i=2, st=1, sp=0, **extra)
    # groups with a member that is itself a combinator
    gbase = tuple(c for c in base if c != "nostd")
    d = 4 if tier == "quick" else 5
    for inner, ncont in (("join", "vec"), ("try_join", "tuple"), ("race", "array"), ("race_ok", "vec")):
        out += grp("fgroup", gbase, keyed=1 if inner == "race" else 0, nest=inner, ncont=ncont, nin=2, init=1, mm=3, ops=2, p=1, st=1, sp=1, dev=d, **extra)
    for inner, ncont in (("merge", "tuple"), ("zip", "vec"), ("chain", "array")):
        out += grp("sgroup", gbase, keyed=1 if inner == "zip" else 0, nest=inner, ncont=ncont, nin=2, init=1, mm=3, ops=2, p=1, i=2 if tier != "quick" else 1, st=1, sp=1, dev=d, **extra)
    return out


def groups_small(tier, fams=("fgroup", "sgroup"), base=A2, **extra):
    """operation histories of the groups: small shapes fully enumerated, larger alphabets deviation-bounded"""
    out = []
    quick = tier == "quick"
    for fam in fams:
        sg = fam == "sgroup"
        i1 = 1 if sg else None
        i2 = 2 if sg else None
        for keyed in (0, 1):
            # full enumeration, tiny
            out += grp(fam, base, keyed=keyed, init=1, mm=3, ops=2 if sg else 3, p=1, i=i1, **extra)
            # richer alphabet, bounded number of departures from the default environment
            out += grp(fam, base, keyed=keyed, init=2, mm=4, ops=4, p=1, i=i2, st=1, sp=1, dev=4 if quick else 5, **extra)
            if not quick:
                out += grp(fam, base, keyed=keyed, init=2, mm=3, ops=2, p=1, i=i1, st=1, **extra)
                out += grp(fam, base, keyed=keyed, init=1, mm=3, ops=3, p=1, i=i1, sp=1 if not sg else 0, **extra)
                out += grp(fam, base, keyed=keyed, init=0, mm=4, ops=5, p=1, i=i2, st=1, sp=1, rs=1, dev=5, **extra)
        # capacity / reserve / extend / from_iter shapes
        for cap in ((1,) if quick else (1, 2)):
            out += grp(fam, base, cap=cap, init=1, mm=4, ops=4, rs=1, p=1, i=i2, st=1, sp=1, dev=4 if quick else 5, **extra)
        out += grp(fam, base, iter=2, mm=4, ops=3, ext=1, rs=1, p=1, i=i1, st=1, sp=1, dev=4 if quick else 5, **extra)
        out += grp(fam, base, keyed=1, iter=1, mm=4, ops=3, ext=1, rs=1, p=1, i=i1, sp=1, dev=4 if quick else 5, **extra)
        # extend / from_iter fed by an iterator without a size hint (nothing can be reserved up front)
        out += grp(fam, base, iter=3, mm=5, ops=3, ext=2, rs=1, p=1, i=i1, dev=3 if quick else 4, **extra)
        if not sg:
            for cap in (0, 1, 2):
                out += grp(fam, base, keyed=cap % 2, cap=cap, init=1 if cap else 0, mm=6, ops=3, ext=2, p=1, dev=3 if quick else 4, **extra)
    return out


def co_small(tier, terms, base=A2, stacks=("",), **extra):
    out = []
    for term in terms:
        for stack in stacks:
            for src in ("stream", "vec"):
                if src == "vec" and len(stack) > 2:
                    continue
                l = 2 if tier == "quick" else 3
                kw = dict(src=src, l=l, term=term, stack=stack or None, wp=1, p=1, i=l)
                kw.update(extra)
                out += co(base, **kw)
    return out


# ---------------------------------------------------------------------------------------------
# per-property plans
# ---------------------------------------------------------------------------------------------

def cross_cutting(tier, base=ALL3, **extra):
    items = []
    items += fut_small(["join", "try_join", "race", "race_ok"], tier, base, **extra)
    items += str_small(["merge", "zip", "chain"], tier, base, **extra)
    items += nested(tier, base, **extra)
    items += groups_small(tier, base=tuple(c for c in base if c != "nostd"), **extra)
    items += wide("fut", ["join", "try_join", "race", "race_ok"], tier, base, **extra)
    items += wide("str", ["merge", "zip", "chain"], tier, base, **extra)
    for kind in ("wait",):
        items += fut("wait", "x", 2, base, p=2, sp=1, st=1, **extra)
        items += strm("wait", "x", 2, base, p=2, i=2, sp=1, st=1, **extra)
    return items


def suite(prop, tier):
    f = globals().get("plan_" + prop)
    if f is None:
        return None
    plan = f(tier)
    # de-duplicate, keep order
    seen, items = set(), []
    for it in plan["items"]:
        if it not in seen:
            seen.add(it)
            items.append(it)
    plan["items"] = items
    return plan


def dropwake_items(tier, **extra):
    """a child that completes is dropped by most combinators inside their own poll; its destructor may wake a sibling"""
    items = []
    for fam in FUT_CONT:
        for cont in FUT_CONT[fam]:
            items += fut(fam, cont, 2, p=2, dw=1, sp=1, **extra)
            items += fut(fam, cont, 3, p=1, dw=1, **extra)
    for fam in STR_CONT:
        for cont in STR_CONT[fam]:
            items += strm(fam, cont, 2, p=1, i=1, dw=1, sp=1, **extra)
            items += strm(fam, cont, 3, p=1, i=1, dw=1, **extra)
    for fam in ("fgroup", "sgroup"):
        sg = fam == "sgroup"
        items += grp(fam, init=2, mm=3, ops=1, p=1, i=1 if sg else None, dw=1, **extra)
        # a member removed (or the whole group dropped) while a sibling is parked: its destructor wakes the sibling
        items += grp(fam, keyed=1, init=2, mm=3, ops=2, p=1, i=1 if sg else None, dw=1, dr=1, dev=4, **extra)
    return items


def plan_C01(tier):
    return {
        "items": cross_cutting(tier) + dropwake_items(tier),
        "loom": {"scenarios": "all"},
        "bounds": "full enumeration: N<=3 children (4 in thorough), P<=2 Pending answers (3 thorough), I<=2 items, 1-2 stale/repeated wake-ups, 1 spurious poll, 1 in-poll wake of another child; "
                  "deviation bound d<=2 (3 thorough for N<=8) for tuples 5/8/12, arrays 8/23/65, Vecs 22..200; groups: histories of <=3 (5 thorough) operations over <=4 members; one level of nesting; "
                  "loom: 1 polling thread + 2 waking threads, preemption bound 2 (3 thorough)",
        "assumptions": ["loom models std::sync::Mutex, Condvar, atomics and thread spawn/join; Arc reference counting inside wakers is std's and is not a scheduling point"],
    }


def custom_consumer_items(tier, **extra):
    """the concurrent-stream source driven by a consumer the caller wrote against the public Consumer trait (a synchronous
    one: send awaits the future and answers Empty; progress answers Empty or pends forever)"""
    items = []
    for cons in (1, 2):
        for stack in ("", "m", "t", "e", "mt"):
            items += co(src="stream", l=2, i=2, p=1, term="collect", stack=stack or None, tn=1, wp=1, cons=cons, **extra)
        items += co(src="stream", l=3, i=3, p=1, term="collect", wp=1, cons=cons, sw=0, **extra)
        items += co(src="vec", l=3, term="collect", stack="m", wp=1, cons=cons, **extra)
        items += co(src="stream", l=0, i=0, p=1, term="collect", wp=1, cons=cons, **extra)
    return items


def plan_C03(tier):
    items = cross_cutting(tier)
    items += co_small(tier, ["for_each", "try_for_each", "collect"], stacks=("", "m", "lt"), lm=1, tn=1, st=1)
    for n in (11, 12, 16):
        items += grp("sgroup", init=n, mm=n, ops=0, p=0, i=0)
        items += grp("sgroup", keyed=1, init=n, mm=n + 1, ops=1, rm=0, p=1, i=0, dev=2)
        items += grp("fgroup", init=n, mm=n + 1, ops=1, rm=0, p=1, dev=2)
    items += custom_consumer_items(tier, st=1)
    return {"items": items, "bounds": "as C01 (stale wake-ups aimed at finished children included) plus concurrent-stream drivers with 1 stale wake-up"}


def plan_C16(tier):
    items = []
    items += fut_small(["join", "try_join"], tier, STD)
    items += str_small(["merge", "zip"], tier, STD)
    items += groups_small(tier, base=STD)
    items += wide("fut", ["join", "try_join"], tier, STD)
    items += wide("str", ["merge", "zip"], tier, STD)
    n3 = [("vec", 3), ("array", 3), ("tuple", 3)] + ([("vec", 4), ("tuple", 4)] if tier != "quick" else [])
    for cont, n in n3:
        for fam in ("join", "try_join"):
            items += fut(fam, cont, n, STD, p=2 if n < 4 else 1, sp=2, st=0)
        for fam in ("merge", "zip"):
            items += strm(fam, cont, n, STD, p=1 if (tier == "quick" or n >= 4) else 2, i=1, sp=2, st=0)
            items += strm(fam, cont, 2, STD, p=2, i=2, sp=2, st=0)
    return {"items": items, "bounds": "std configuration only; as C01 with up to 2 spurious polls; deviation-bounded wide containers"}


def plan_C20(tier):
    items = []
    futs = ["join", "try_join", "race", "race_ok"]
    strs = ["merge", "zip"]
    ns = [2, 3] if tier == "quick" else [2, 3, 4]
    for n in ns:
        for k in (1, 2):
            if k >= n:
                continue
            for nv in masks(n, k):
                for fam in futs:
                    for cont in FUT_CONT[fam]:
                        items += fut(fam, cont, n, nv=nv, p=1 if n > 2 else 2, sp=1, st=1 if n < 4 else 0)
                for fam in strs:
                    for cont in STR_CONT[fam]:
                        items += strm(fam, cont, n, nv=nv, p=1, i=2 if n < 4 else 1, sp=1 if n < 4 else 0, st=1 if n < 3 else 0)
                        if k == 1 and n < 4:
                            items += strm(fam, cont, n, nam=nv, na=1, p=1, i=2, sp=1 if n < 3 else 0)
    # no never-child: first sentence on the plain spaces
    items += fut_small(futs, tier)
    items += str_small(strs, tier)
    # wide containers, never-children at the first / a middle / the last position
    for fam in futs:
        for cont, n in (("tuple", 12), ("array", 23), ("vec", 65)) + ((("vec", 129), ("array", 65)) if tier != "quick" else ()):
            for pos in (0, n // 2, n - 1):
                items += fut(fam, cont, n, nvp=pos, p=1, sp=1, st=1, dev=2)
    for fam in strs:
        for cont, n in (("tuple", 12), ("array", 23), ("vec", 65)):
            for pos in (0, n // 2, n - 1):
                items += strm(fam, cont, n, nvp=pos, p=1, i=1, sp=1, st=1, dev=2)
    # groups: members inserted at any time, never-members at every ordinal
    for fam in ("fgroup", "sgroup"):
        for nv in (1, 2, 4, 3, 5):
            items += grp(fam, nv=nv, init=1, mm=3, ops=3 if tier == "quick" else 4, p=1, i=1 if fam == "sgroup" else None, sp=1 if tier != "quick" else 0)
            items += grp(fam, nv=nv, keyed=1, init=2, mm=3, ops=2, p=1, i=2 if fam == "sgroup" else None, st=1)
    items += groups_small(tier)
    return {"items": items, "bounds": "every subset position of 1-2 never-completing children among N<=3 (4 thorough) children, others over the full alphabet; wide containers at d<=2 with the never-child first / middle / last; groups with never-members at every insertion ordinal"}


def plan_C02(tier):
    items = cross_cutting(tier, dr=1, pa=1) if tier != "quick" else []
    if tier == "quick":
        for fam in FUT_CONT:
            for cont in FUT_CONT[fam]:
                items += fut(fam, cont, 2, p=2, dr=1, pa=1, st=1)
                items += fut(fam, cont, 3, p=1, dr=1, pa=1)
        for fam in STR_CONT:
            for cont in STR_CONT[fam]:
                items += strm(fam, cont, 2, p=1, i=2, dr=1, pa=1, st=1)
                items += strm(fam, cont, 3, p=1, i=1, dr=1, pa=1)
        items += nested(tier, dr=1, pa=1)
        items += groups_small(tier, dr=1, pa=1)
        items += wide("fut", list(FUT_CONT), tier, dr=1, pa=1)
        items += wide("str", list(STR_CONT), tier, dr=1, pa=1)
    items += dropwake_items(tier, st=1)
    items += custom_consumer_items(tier, dr=1, pa=1)
    stacks = ("", "m", "e", "lt", "ml") if tier == "quick" else ("", "m", "e", "t", "l", "lt", "ml", "me", "mm", "mlt")
    items += co_small(tier, ["for_each", "try_for_each", "collect", "collect_result"], stacks=stacks, lm=1, tn=1, dr=1, pa=1)
    plan = {"items": items,
            "bounds": "drop of the combinator enabled at every step (before the first poll, after every poll, after completion) and one panic enabled at every child poll, on top of the schedule "
                      "space of C01 at N<=3, P<=2, I<=2; wide containers at d<=2; groups with <=3-5 operations; concurrent-stream drivers with source length <=2 (3 thorough)"}
    if tier != "quick":
        plan["miri"] = {"matrix": "smallest"}
    return plan


def plan_C04(tier):
    items = []
    for cont in FUT_CONT["join"]:
        for n in ([0, 1, 2, 3] if cont != "ext" else [2]):
            if cont == "ext" and n != 2:
                continue
            items += fut("join", cont, n, p=2 if tier == "quick" else 3, st=1, sp=1, ip=1 if n <= 2 else 0)
        items += fut("join", cont, 4, p=2, sp=1 if tier != "quick" else 0)
        if tier != "quick":
            items += fut("join", cont, 3, p=2, st=1, por=0)
            items += fut("join", cont, 5, p=1)
    items += wide("fut", ["join"], tier)
    for n in range(5, 13):
        items += fut("join", "tuple", n, p=1, st=1, sp=1, dev=2 if tier == "quick" else 3)
    return {"items": items, "bounds": "tuples 0..12, arrays {0,1,2,3,4,8,23,65}, Vecs {0..4,22,23,24,64,65,66,128,129,200}, FutureExt::join; full enumeration N<=4 (P<=2; 3 in thorough), all completion orders; wide at d<=2 (3 thorough)"}


def plan_C05(tier):
    items = []
    for cont in FUT_CONT["try_join"]:
        for n in [0, 1, 2, 3]:
            items += fut("try_join", cont, n, p=2, st=1, sp=1, ip=1 if n <= 2 else 0)
        items += fut("try_join", cont, 4, p=1, sp=1)
        if tier != "quick":
            items += fut("try_join", cont, 4, p=2)
            items += fut("try_join", cont, 3, p=3, st=1)
            items += fut("try_join", cont, 5, p=1)
        if tier != "quick":
            items += fut("try_join", cont, 3, p=2, st=1, por=0)
    items += wide("fut", ["try_join"], tier)
    for n in range(5, 13):
        items += fut("try_join", "tuple", n, p=1, st=1, sp=1, dev=2 if tier == "quick" else 3)
    return {"items": items, "bounds": "every Ok/Err assignment (chosen per child at its Ready answer) for N<=4 with all pending counts and completion orders; tuples 0..12, arrays, Vecs as C04; wide at d<=2 (an Err answer costs one deviation)"}


def plan_C06(tier):
    items = []
    for cont in FUT_CONT["race"]:
        for n in [1, 2, 3, 4]:
            items += fut("race", cont, n, p=2 if n < 4 else 1, st=1, sp=1, ip=1 if n <= 3 else 0)
        if tier != "quick":
            items += fut("race", cont, 3, p=3, st=2, sp=1, por=0)
            items += fut("race", cont, 5, p=1, sp=1)
    items += wide("fut", ["race"], tier)
    for n in range(5, 13):
        items += fut("race", "tuple", n, p=1, st=1, sp=1, dev=2 if tier == "quick" else 3)
    for cont in FUT_CONT["race"]:
        items += fut("race", cont, 3, p=2, st=2, sp=1)
        items += fut("race", cont, 2, p=3, st=2, sp=2, ip=1)
    items += never_items("fut", "race", tier) + lone_survivor_items("fut", "race", tier)
    return {"items": items, "bounds": "tuples 1..12, arrays {1,2,3,4,8,23,65}, Vecs {1..4,22..200}, FutureExt::race; never-completing siblings at every position for N<=3; all answers / wake schedules for N<=4; winner compared with logged poll order"}


def plan_C07(tier):
    items = []
    for cont in FUT_CONT["race_ok"]:
        for n in ([0, 1, 2, 3] if cont != "tuple" else [1, 2, 3]):
            items += fut("race_ok", cont, n, p=2, st=1, sp=1, ip=1 if n <= 2 else 0)
        items += fut("race_ok", cont, 4, p=1, sp=1)
        if tier != "quick":
            items += fut("race_ok", cont, 4, p=2)
            items += fut("race_ok", cont, 3, p=3, st=1)
            items += fut("race_ok", cont, 5, p=1)
        if tier != "quick":
            items += fut("race_ok", cont, 3, p=2, st=1, por=0)
    items += wide("fut", ["race_ok"], tier)
    for n in range(5, 13):
        items += fut("race_ok", "tuple", n, p=1, st=1, sp=1, dev=2 if tier == "quick" else 3)
    for cont in FUT_CONT["race_ok"]:
        items += fut("race_ok", cont, 3, p=2, st=2, sp=1)
        items += fut("race_ok", cont, 2, p=3, st=2, sp=1, ip=1)
    items += never_items("fut", "race_ok", tier) + lone_survivor_items("fut", "race_ok", tier)
    return {"items": items, "bounds": "every Ok/Err assignment for N<=4, all failure orders; never-completing siblings at every position for N<=3; arrays/Vecs from 0, tuples 1..12; wide at d<=2"}


def str_family(fam, tier, zero_ok, i_small):
    items = []
    for cont in STR_CONT[fam]:
        ns = [1, 2, 3]
        if zero_ok and cont != "ext":
            ns = [0] + ns
        if fam in ("zip", "chain") and cont == "tuple":
            ns = [n for n in ns if n >= 1]
        for n in ns:
            if n <= 2:
                items += strm(fam, cont, n, p=2 if tier != "quick" else 1, i=i_small + (1 if tier != "quick" else 0), st=1, sp=1, ip=1)
            else:
                items += strm(fam, cont, n, p=1, i=i_small, st=1 if tier != "quick" else 0, sp=1)
        items += strm(fam, cont, 4, p=1, i=1, sp=0)
        if tier != "quick" or fam != "merge":
            items += strm(fam, cont, 3, p=2, i=2)
        if tier != "quick":
            items += strm(fam, cont, 3, p=1, i=1, st=2, por=0)
    items += wide("str", [fam], tier)
    for n in range(5, 13):
        items += strm(fam, "tuple", n, p=1, i=1, st=1, sp=1, dev=2 if tier == "quick" else 3)
    return items


def never_items(kind, fam, tier):
    """a child that stays Pending forever must not hold back what the others can deliver"""
    mk = fut if kind == "fut" else strm
    conts = FUT_CONT[fam] if kind == "fut" else STR_CONT[fam]
    out = []
    for cont in conts:
        for n in (2, 3):
            for k in (1, 2):
                if k >= n:
                    continue
                for nv in masks(n, k):
                    kw = dict(nv=nv, p=1, sp=1, st=1 if (n == 2 or tier != "quick") else 0)
                    if kind == "str":
                        kw["i"] = 2 if n == 2 else 1
                    out += mk(fam, cont, n, **kw)
                    if kind == "str" and k == 1:
                        # the same positions with an input that delivers one item and then stays Pending forever
                        out += mk(fam, cont, n, nam=nv, na=1, p=1, i=2, sp=1, st=1 if n == 2 else 0)
    return out


def lone_survivor_items(kind, fam, tier):
    """all children but one never complete: the survivor must be started and its result delivered (every
    position of every tuple arity - the tuple code is generated per arity - and arrays / Vecs of 4 and 8)"""
    mk = fut if kind == "fut" else strm
    out = []
    shapes = [("tuple", n) for n in range(2, 13)] + [("array", 4), ("array", 8), ("vec", 4), ("vec", 8)]
    for cont, n in shapes:
        for j in range(n):
            nvp = ".".join(str(i) for i in range(n) if i != j)
            # p=3: the survivor may stay Pending for several polls, so that later rotation starts are reached too
            kw = dict(nvp=nvp, p=3, sp=1)
            if kind == "str":
                kw["i"] = 1
            out += mk(fam, cont, n, **kw)
    return out


def plan_C08(tier):
    return {"items": str_family("merge", tier, True, 2) + never_items("str", "merge", tier) + lone_survivor_items("str", "merge", tier), "bounds": "tuples 0..12, arrays {0..4,8,23,65}, Vecs {0..4,22..200}, StreamExt::merge; per-input scripts over item / Pending / self-wake / early end with I<=2 (3 thorough), unequal lengths, all wake schedules for N<=3"}


def plan_C09(tier):
    return {"items": str_family("zip", tier, False, 2) + never_items("str", "zip", tier), "bounds": "tuples 1..12, arrays, Vecs, StreamExt::zip; all length vectors with lengths <=2 (3 thorough) via early end; k-th items arriving in any order any number of polls apart for N<=3"}


def plan_C10(tier):
    return {"items": str_family("chain", tier, True, 2), "bounds": "tuples 1..12, arrays/Vecs from 0, StreamExt::chain; scripts incl. empty inputs and inputs that pend before ending"}


def plan_C11(tier):
    quick = tier == "quick"
    items = groups_small(tier, fams=("fgroup",))
    for keyed in (0, 1):
        items += grp("fgroup", keyed=keyed, init=0, mm=3, ops=4 if quick else 5, p=1)
        items += grp("fgroup", keyed=keyed, init=0, mm=4, ops=6, p=1, st=1, sp=1, rs=1, ext=1, dev=4 if quick else 5)
    items += grp("fgroup", cap=2, init=2, mm=4, ops=3, rs=1, p=1, sp=1, dev=5 if quick else 7)
    for nv in (1, 2, 5):
        items += grp("fgroup", keyed=1, nv=nv, init=2, mm=4, ops=3, p=1, st=1, sp=1, dev=4 if quick else 5)
    for n in (11, 16):
        items += grp("fgroup", keyed=1, init=n, mm=n + 1, ops=1, rm=0, p=1, dev=2)
    items += [it for it in dropwake_items(tier) if "fam=fgroup" in it[2]]
    if not quick:
        items += grp("fgroup", init=1, mm=4, ops=4, p=1, st=1, sp=1, dr=1, dev=6)
        items += grp("fgroup", keyed=1, init=0, mm=4, ops=8, p=1, ext=1, rs=1, dev=6)
    return {"items": items, "bounds": "operation histories (insert, remove of any key ever returned, reserve{0,1,3}, extend(2)) interleaved with polls, wake-ups, stale wake-ups and spurious polls: "
            "full enumeration up to 4 (5 thorough) operations over <=3 members, and up to 6 (8 thorough) operations over <=4 members within 4-5 (5-7 thorough) departures from the default environment; "
            "capacity 0/1/2; new / with_capacity / from_iter; plain and keyed"}


def plan_C12(tier):
    quick = tier == "quick"
    items = groups_small(tier, fams=("sgroup",))
    for keyed in (0, 1):
        items += grp("sgroup", keyed=keyed, init=0, mm=3, ops=3 if quick else 4, p=1, i=1)
        items += grp("sgroup", keyed=keyed, init=0, mm=4, ops=6, p=1, i=2, st=1, sp=1, rs=1, dev=4 if quick else 5)
    items += grp("sgroup", cap=2, init=2, mm=4, ops=3, rs=1, p=1, i=1, sp=1, dev=5 if quick else 6)
    items += grp("sgroup", init=3, mm=3, ops=1, p=1, i=2, st=1, dev=5 if quick else 7)
    items += grp("sgroup", init=3, mm=3, ops=0, p=0, i=2)
    items += [it for it in dropwake_items(tier) if "fam=sgroup" in it[2]]
    # many members ending in the same poll (beyond the inline capacity of the key-removal queue), then refilled
    for n in (11, 12, 16):
        items += grp("sgroup", init=n, mm=n, ops=0, p=0, i=0)
        items += grp("sgroup", keyed=1, init=n, mm=n + 1, ops=1, rm=0, p=1, i=0, dev=2)
        items += grp("sgroup", init=n, mm=n, ops=0, p=0, i=1, ee=0, dev=1)
    for nv in (1, 2, 5):
        items += grp("sgroup", keyed=1, nv=nv, init=2, mm=4, ops=3, p=1, i=2, st=1, sp=1, dev=4 if quick else 5)
        items += grp("sgroup", nam=nv, na=1, init=2, mm=4, ops=3, p=1, i=2, st=1, sp=1, dev=4 if quick else 5)
    if not quick:
        items += grp("sgroup", init=2, mm=4, ops=3, p=1, i=2, st=1, sp=1, dr=1, dev=6)
    return {"items": items, "bounds": "as C11 for StreamGroup: member scripts with I<=2 items, P<=1; several members ending in the same poll; growth while members pend"}


CO_STACKS_D1 = ["", "m", "e", "t", "l"]


def all_stacks(depth):
    import itertools
    out = [""]
    for d in range(1, depth + 1):
        out += ["".join(s) for s in itertools.product("metl", repeat=d)]
    return out


def plan_C13(tier):
    items = []
    for lm in (1, 2, 3, 0):
        for l in ((2, 3) if tier == "quick" else (2, 3, 4)):
            wp = 1 if (l >= 3 and tier == "quick") or l >= 4 else 2
            items += co(src="stream", l=l, i=l, p=1, term="for_each", stack="l", lm=lm, wp=wp, sp=1 if l < 3 else 0, dr=1 if l < 3 else 0)
            items += co(src="vec", l=l, term="for_each", stack="l", lm=lm, wp=wp, dr=1)
    for lm in (1, 2, 3, 0):
        items += co(src="stream", l=3, i=3, p=1, term="for_each", stack="l", lm=lm, wp=2, sw=0)
        items += co(src="stream", l=3, i=3, p=1, term="for_each", stack="ml", lm=lm, wp=1, sw=0, dr=1)
    for stack in ("", "m", "e", "ml", "el", "lm", "le") + (("mel", "lme", "mml") if tier != "quick" else ()):
        items += co(src="stream", l=2, i=2, p=1, term="for_each", stack=stack, lm=1, wp=1, st=1, dr=1)
        if len(stack) <= 2:
            items += co(src="vec", l=3, term="for_each", stack=stack, lm=2, wp=1, dr=1)
    # two stacked limits: the outermost one is the limit of the operation
    for (a, b) in ((3, 1), (1, 2), (2, 0), (0, 1)):
        items += co(src="stream", l=3, i=3, p=1, term="for_each", stack="lml", lm=a, lm2=b, wp=1, sw=0)
        items += co(src="vec", l=3, term="for_each", stack="ll", lm=a, lm2=b, wp=2)
        items += co(src="stream", l=3, i=3, p=0, term="for_each", stack="lel", lm=a, lm2=b, wp=2)
    # a take(k) stacked on a limit(n) with k > n must not widen the limit
    for (lm, tn) in ((1, 3), (2, 3), (2, 4)):
        ln = 4 if tn == 4 else 3
        for stack in ("lt", "lmt", "let"):
            items += co(src="stream", l=ln, i=ln, p=0 if len(stack) > 2 else 1, term="for_each", stack=stack, lm=lm, tn=tn, wp=1, sw=0)
        items += co(src="vec", l=ln, term="for_each", stack="lt", lm=lm, tn=tn, wp=2 if ln == 3 else 1)
    # many closure futures in flight when the source ends (every one Pending on its first poll, wlz=1): the final flush
    # must wait for all of them - 33, 40 and 70 items, unlimited and with a limit above 32
    for ln in (33, 40, 70):
        items += co(src="vec", l=ln, term="for_each", wp=0, wlz=1, dev=1)
        items += co(src="stream", l=ln, i=ln, p=0, term="for_each", stack="l", lm=ln - 1, wp=0, wlz=1, dev=1)
    # never-completing closure futures: saturation and structured completion
    for wnv in (1, 2, 3):
        items += co(src="stream", l=3, i=3, p=1, term="for_each", stack="l", lm=2, wp=1, wnv=wnv)
    if tier != "quick":
        # deeper: longer sources, more Pending answers per closure future, stale wake-ups
        for lm in (1, 2, 3, 0):
            items += co(src="stream", l=4, i=4, p=1, term="for_each", stack="l", lm=lm, wp=2, sw=0)
            items += co(src="stream", l=3, i=3, p=2, term="for_each", stack="l", lm=lm, wp=2, st=1, sp=1)
            items += co(src="vec", l=4, term="for_each", stack="l", lm=lm, wp=2, st=1, dr=1)
            items += co(src="stream", l=3, i=3, p=1, term="for_each", stack="ml", lm=lm, wp=2, sw=0)
        for wnv in (1, 2, 4, 3, 5, 6):
            items += co(src="stream", l=4, i=4, p=1, term="for_each", stack="l", lm=2, wp=1, wnv=wnv, dr=1)
    return {"items": items, "bounds": "source length <=3 (4 thorough) from co() and Vec::into_co_stream, closure futures with <=2 Pending answers, limits {1,2,3,unlimited}, map/enumerate in front, drop at every step"}


def plan_C14(tier):
    items = []
    for term in ("try_for_each", "collect_result"):
        for lm in (1, 2, 0):
            for l in ((2, 3) if tier == "quick" else (2, 3, 4)):
                wp = 1 if l >= 3 else 2
                if term == "collect_result" and lm != 0:
                    continue
                items += co(src="stream", l=l, i=l, p=1, term=term, stack="l" if term == "try_for_each" else None, lm=lm, wp=wp, sp=1 if l < 3 else 0, dr=1 if l < 4 else 0, sw=1 if l < 4 else 0)
                items += co(src="vec", l=l, term=term, stack="l" if term == "try_for_each" else None, lm=lm, wp=wp, dr=1)
        for lm in ((1, 2, 0) if term == "try_for_each" else (0,)):
            items += co(src="stream", l=3, i=3, p=1, term=term, stack="l" if term == "try_for_each" else None, lm=lm, wp=2, sw=0)
        for stack in ("m", "e", "ml", "lm") + (("mel", "tl") if tier != "quick" else ()):
            items += co(src="stream", l=2, i=2, p=1, term=term, stack=stack, lm=1, tn=2, wp=1, dr=1)
        # many work futures in flight when the source ends (each Pending on its first poll): every one of them is awaited
        for ln in (33, 40):
            items += co(src="vec", l=ln, term=term, wp=0, wlz=1, dev=1)
        # adapters between the limit and the fallible terminal must pass a Break upwards (back-pressure path)
        for stack in ("lt", "tl", "lmt", "let"):
            for lm in (1, 2):
                items += co(src="stream", l=3, i=3, p=0 if len(stack) > 2 else 1, term=term, stack=stack, lm=lm, tn=3, wp=1, sw=0)
            items += co(src="vec", l=3, term=term, stack=stack[:2] if stack[:2] in ("lt", "tl") else "lt", lm=1, tn=4, wp=2)
        for wnv in (1, 2):
            items += co(src="stream", l=3, i=3, p=1, term=term, stack="l", lm=2, wp=1, wnv=wnv)
            items += co(src="stream", l=3, i=3, p=1, term=term, stack=None, wp=1, wnv=wnv)
        if tier != "quick":
            for lm in ((1, 2, 0) if term == "try_for_each" else (0,)):
                st = "l" if term == "try_for_each" else None
                items += co(src="stream", l=4, i=4, p=1, term=term, stack=st, lm=lm, wp=2, sw=0)
                items += co(src="stream", l=3, i=3, p=2, term=term, stack=st, lm=lm, wp=2, st=1, sp=1)
                items += co(src="vec", l=4, term=term, stack=st, lm=lm, wp=2, st=1, dr=1)
            for wnv in (1, 2, 4, 3, 5, 6):
                items += co(src="stream", l=4, i=4, p=1, term=term, stack="l" if term == "try_for_each" else None, lm=2, wp=1, wnv=wnv, dr=1)
    return {"items": items, "bounds": "try_for_each and collect::<Result<Vec,_>> over source length <=3 (4 thorough), every Ok/Err assignment of the work futures, limits {1,2,unlimited}, drop at every step"}


def plan_C15(tier):
    items = []
    depth = 3  # all 85 stacks in both tiers (the thorough tier adds longer sources and more take values)
    for stack in all_stacks(depth):
        nt = stack.count("t")
        for term in ("collect", "for_each", "try_for_each"):
            tns = [1] if nt else [None]
            if nt and (tier != "quick" or len(stack) <= 1):
                tns = [0, 1, 2, 3]
            for tn in tns:
                l = 2
                items += co(src="stream", l=l, i=l, p=1 if len(stack) < 3 else 0, term=term, stack=stack or None, tn=tn, tn2=(2 if nt > 1 else None), lm=1, lm2=(2 if stack.count("l") > 1 else None), wp=1, ee=1 if len(stack) < 2 else 0)
            if len(stack) <= 2 and (tier != "quick" or len(stack) <= 1):
                items += co(src="vec", l=3, term=term, stack=stack or None, tn=2 if nt else None, lm=2, wp=1)
    # longer sources for the take boundary: n in {0, 1, 2, L, L+1}
    for term in ("collect", "for_each"):
        for tn in (0, 1, 2, 3, 4):
            items += co(src="stream", l=3, i=3, p=1, term=term, stack="t", tn=tn, wp=1)
            items += co(src="vec", l=3, term=term, stack="mt", tn=tn, wp=1)
            items += co(src="stream", l=3, i=3, p=0, term=term, stack="et", tn=tn, wp=1)
    # a source that stays Pending forever once take(n) has what it needs: the operation must still complete
    for term in ("collect", "for_each", "try_for_each"):
        for stack in ("t", "mt", "tm", "et", "tl"):
            for tn in (0, 1, 2):
                items += co(src="stream", l=3, i=3, p=1, term=term, stack=stack, tn=tn, lm=1, wp=1, sna=max(tn, 1), ee=0)
    # take(n) with n far beyond the source length (up to usize::MAX): exactly the L source items are processed
    for tn in (1 << 40, (1 << 63) - 1, (1 << 64) - 1):
        for stack in ("t", "et", "tm"):
            items += co(src="vec", l=2, term="collect", stack=stack, tn=tn, wp=1)
            items += co(src="stream", l=2, i=2, p=1, term="collect", stack=stack, tn=tn, wp=1, ee=0)
            items += co(src="stream", l=2, i=2, p=0, term="for_each", stack=stack, tn=tn, wp=1, sh=0)
    # two takes with different counts in one stack: the smaller one decides, wherever it sits
    for (a, b) in ((3, 1), (1, 3), (2, 1)):
        for stack in ("tt", "tet", "tmt"):
            for term in ("collect", "for_each"):
                items += co(src="stream", l=3, i=3, p=0 if len(stack) > 2 else 1, term=term, stack=stack, tn=a, tn2=b, wp=1, sna=min(a, b), ee=0)
            items += co(src="stream", l=3, i=3, p=1, term="try_for_each", stack=stack, tn=a, tn2=b, wp=1, ee=0)
    items += co(src="stream", l=0, i=0, p=1, term="collect", stack="me", wp=1)
    items += co(src="vec", l=0, term="collect", stack="m", wp=1)
    items += custom_consumer_items(tier)
    # many per-item futures in flight when the source ends
    for ln in (33, 40):
        items += co(src="vec", l=ln, term="collect", stack="m", wp=0, wlz=1, dev=1)
        items += co(src="stream", l=ln, i=ln, p=0, term="collect", stack="e", wp=0, wlz=1, dev=1)
    return {"items": items, "bounds": "every adapter stack of depth <=2 (3 thorough) over {map, enumerate, take(n), limit(m)} x terminal {collect, for_each, try_for_each} x source length {0,2,3} x all completion orders of the per-item futures (P<=1) x source readiness patterns; take n in {0,1,2,3,4}"}


def plan_C17(tier):
    items = []
    for cont in STR_CONT["merge"]:
        for n in [1, 2, 3]:
            for pos in range(n):
                if n <= 2:
                    items += strm("merge", cont, n, al=1 << pos, p=1, i=2, mi=3 * n, sp=1, st=1)
                else:
                    items += strm("merge", cont, n, al=1 << pos, p=1, i=1 if tier == "quick" else 2, mi=3 * n, sp=1 if tier != "quick" else 0)
        # several always-ready inputs
        items += strm("merge", cont, 3, al=7, p=0, i=1, mi=9, sp=2)
        items += strm("merge", cont, 3, al=5, p=1, i=1, mi=9, sp=1)
        if tier != "quick":
            for pos in range(4):
                items += strm("merge", cont, 4, al=1 << pos, p=1, i=1, mi=12)
    for cont, ns in (("tuple", [5, 8, 12]), ("array", [8]), ("vec", [5, 8, 12])):
        for n in ns:
            for pos in sorted({0, 1, n // 2, n - 1}):
                items += strm("merge", cont, n, al=1 << pos, p=1, i=1, mi=3 * n, sp=1, st=1, dev=2 if tier == "quick" else 3)
            items += strm("merge", cont, n, al=(1 << n) - 1, p=0, i=1, mi=3 * n, sp=1, dev=2)
    # Vecs across the 64-bit block boundary of the readiness bits: everything always ready (every window of N
    # yields must contain every input), and a single always-ready input beyond position 63
    for n in (65, 66) + ((129,) if tier != "quick" else ()):
        items += strm("merge", "vec", n, A2, alp=".".join(str(i) for i in range(n)), p=0, i=1, mi=2 * n, sp=1, dev=1)
        for pos in sorted({0, 63, 64, n - 1}):
            items += strm("merge", "vec", n, A2, alp=pos, p=1, i=1, mi=n + 2, dev=1)
    items += strm("merge", "array", 65, alp=".".join(str(i) for i in range(65)), p=0, i=1, mi=130, sp=1, dev=1)
    return {"items": items, "bounds": "always-ready input at every position of N<=3 (4 thorough) inputs, others over item/Pending/end scripts with all wake schedules, horizon 3N yields, spurious polls; tuples/arrays/Vecs 5..12 at d<=2 (3 thorough)"}


def plan_C19(tier):
    items = []
    p = 3 if tier == "quick" else 4
    items += fut("wait", "x", 2, p=p, sp=2, st=1, ip=1)
    items += strm("wait", "x", 2, p=p if tier != "quick" else 2, i=2, sp=2, st=1, ip=1)
    items += strm("wait", "x", 2, p=3, i=2, sp=1, st=1)
    items += fut("wait", "x", 2, p=2, sp=1, dr=1)
    items += strm("wait", "x", 2, p=2, i=3, sp=1)
    return {"items": items, "bounds": "deadline with <=3 (4 thorough) Pending answers incl. self-wake, inner future / stream scripts with P<=3, I<=3, 2 spurious polls, 1 stale wake-up, all wake schedules"}
