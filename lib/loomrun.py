"""Engine B (loomwake): loom exploration of thread interleavings of the waker protocol (DESIGN.md §4)."""
import hashlib
import json
import os
import subprocess
import time
from concurrent.futures import ThreadPoolExecutor

ROOT = os.path.dirname(os.path.dirname(os.path.abspath(__file__)))
ENGINE = os.path.join(ROOT, "engines", "loomwake")
TARGET = os.path.join(os.environ.get("VERIF_BUILD_DIR") or os.path.join(ROOT, ".build"), "loom")
OUT = os.environ.get("VERIF_OUT_DIR") or ROOT
REPO_OVERRIDE = os.environ.get("FC_REPO_OVERRIDE")
BIN = os.path.join(TARGET, "release", "loomwake")
ENV = dict(os.environ, CARGO_NET_OFFLINE="true", RUSTFLAGS="--cfg fc_verif_loom", CARGO_TARGET_DIR=TARGET)


def build(log):
    cmd = ["cargo", "build", "--release", "--offline", "-q"]
    if REPO_OVERRIDE:
        cmd += ["--config", 'paths=["%s"]' % REPO_OVERRIDE]
    p = subprocess.run(cmd, cwd=ENGINE, env=ENV, stdout=subprocess.PIPE, stderr=subprocess.STDOUT, text=True)
    if p.returncode != 0:
        log("loomwake build failed:\n" + p.stdout[-6000:])
        return False
    return True


def scenarios():
    out = subprocess.run([BIN, "--list"], stdout=subprocess.PIPE, text=True).stdout.split()
    return out


def jobs_for(tier):
    """(scenario, extra args, timeout)"""
    js = []
    for s in scenarios():
        if tier == "quick":
            for sp in (0, 1):
                for wl in (False, True):
                    js.append((s, ["--bound", "2", "--spurious", str(sp)] + (["--wake-locked"] if wl else []), 120))
            js.append((s, ["--bound", "3", "--spurious", "1"], 120))
        else:
            for sp in (0, 1, 2):
                for wl in (False, True):
                    js.append((s, ["--bound", "3", "--spurious", str(sp)] + (["--wake-locked"] if wl else []), 900))
            js.append((s, ["--bound", "4", "--spurious", "1"], 1800))
            if s != "stale_after_done":
                # (three threads besides the executor: the unbounded search does not finish in 25 minutes; bound 4 does)
                js.append((s, ["--unbounded", "--spurious", "1", "--max-branches", "1000000"], 1500))
    return js


def run_one(job):
    s, args, tmo = job
    t0 = time.time()
    try:
        p = subprocess.run([BIN, s] + args, stdout=subprocess.PIPE, stderr=subprocess.PIPE, text=True, timeout=tmo)
        rc, out, err = p.returncode, p.stdout, p.stderr
    except subprocess.TimeoutExpired:
        return {"scenario": s, "args": args, "status": "timeout", "wall_s": time.time() - t0}
    if rc == 0:
        try:
            j = json.loads(out.strip().splitlines()[-1])
            return {"scenario": s, "args": args, "status": "ok", "iterations": j["iterations"], "wall_s": j["wall_s"]}
        except Exception:
            return {"scenario": s, "args": args, "status": "machinery", "detail": out[-500:] + err[-500:]}
    # loom panicked: a deadlock (lost wake-up or lock cycle), a failed assertion or a panic in the crate
    head = "\n".join(l for l in err.splitlines() if "panicked" in l or "deadlock" in l.lower() or "assert" in l.lower())[:1500]
    return {"scenario": s, "args": args, "status": "fail", "detail": head or err[-1500:], "rc": rc}


def make_replay(r):
    os.makedirs(os.path.join(OUT, "replays"), exist_ok=True)
    h = hashlib.sha1((r["scenario"] + " ".join(r["args"])).encode()).hexdigest()[:10]
    cp = os.path.join(OUT, "replays", "C01-loom-%s-%s.checkpoint.json" % (r["scenario"], h))
    if os.path.exists(cp):
        os.remove(cp)
    # deterministic exploration: run again with a checkpoint file; it is left at the failing execution
    try:
        subprocess.run([BIN, r["scenario"]] + r["args"] + ["--checkpoint", cp], stdout=subprocess.DEVNULL, stderr=subprocess.DEVNULL, timeout=1800)
    except subprocess.TimeoutExpired:
        pass
    path = os.path.join(OUT, "replays", "C01-loom-%s-%s.json" % (r["scenario"], h))
    json.dump({"engine": "loomwake", "property": "C01", "scenario": r["scenario"], "args": r["args"], "checkpoint": cp if os.path.exists(cp) else None,
               "verdict": r["detail"]}, open(path, "w"), indent=1)
    return path


def run(plan, tier, log):
    res = {"coverage": {}, "violations": [], "machinery": [], "complete": True}
    if not build(log):
        res["machinery"].append("loomwake did not build (the crate under test must compile with --cfg fc_verif_loom)")
        return res
    js = jobs_for(tier)
    with ThreadPoolExecutor(max_workers=16) as ex:
        rs = list(ex.map(run_one, js))
    iters = 0
    rows = []
    for r in rs:
        if r["status"] == "ok":
            iters += r["iterations"]
            rows.append({"scenario": r["scenario"], "args": " ".join(r["args"]), "iterations": r["iterations"], "wall_s": r["wall_s"]})
        elif r["status"] == "timeout":
            if "--unbounded" in r["args"] or "4" in r["args"]:
                res["complete"] = False
                res["cap"] = "unbounded / bound-4 exploration of %s hit its wall-clock cap (bounded explorations completed)" % r["scenario"]
                rows.append({"scenario": r["scenario"], "args": " ".join(r["args"]), "iterations": None, "status": "wall-clock cap"})
            else:
                res["machinery"].append("loomwake %s %s timed out" % (r["scenario"], " ".join(r["args"])))
        elif r["status"] == "machinery":
            res["machinery"].append("loomwake %s: %s" % (r["scenario"], r["detail"]))
        else:
            path = make_replay(r)
            res["violations"].append({"item": "loom scenario %s %s" % (r["scenario"], " ".join(r["args"])), "msg": r["detail"], "replay": path})
    res["coverage"] = {"iterations": iters, "scenarios": len({r["scenario"] for r in rs}), "runs": rows,
                       "note": "iterations = complete thread interleavings executed by loom (DPOR, preemption bound per run)"}
    return res


def replay(rec, log):
    if not build(log):
        return 2
    args = [BIN, rec["scenario"]] + rec["args"]
    if rec.get("checkpoint") and os.path.exists(rec["checkpoint"]):
        # work on a copy: loom rewrites the checkpoint file while it runs
        tmp = rec["checkpoint"] + ".run"
        open(tmp, "w").write(open(rec["checkpoint"]).read())
        args += ["--checkpoint", tmp]
    p = subprocess.run(args, stdout=subprocess.PIPE, stderr=subprocess.PIPE, text=True)
    if p.returncode != 0:
        print(p.stderr[-2000:])
        print("VIOLATION property=C01 replay=%s" % rec.get("_path", ""))
        return 1
    return 0
