"""Engine B (loomwake) runner - placeholder until the engine is wired in."""


def build(log):
    return True


def run(plan, tier, log):
    return {"coverage": {}, "violations": [], "machinery": [], "complete": True}


def replay(rec, log):
    return 2
