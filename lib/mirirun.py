"""Engine A under Miri - placeholder until wired in."""


def run(plan, tier, log, root):
    return {"coverage": {}, "violations": [], "machinery": []}


def replay(rec, log):
    return 2
