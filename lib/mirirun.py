"""Engine A under Miri (DESIGN.md §5): the polldfs enumeration at its smallest bounds, interpreted by Miri so
that undefined behaviour in the MaybeUninit / ManuallyDrop bookkeeping becomes a failing execution."""
import hashlib
import json
import os
import subprocess
import time
from concurrent.futures import ThreadPoolExecutor

ROOT = os.path.dirname(os.path.dirname(os.path.abspath(__file__)))
ENGINE = os.path.join(ROOT, "engines", "polldfs")
FEATURE = {"std": "cfg-std", "alloc": "cfg-alloc", "nostd": "cfg-nostd"}


def env_for(cfg):
    return dict(os.environ, CARGO_NET_OFFLINE="true", MIRIFLAGS="-Zmiri-disable-isolation", CARGO_TARGET_DIR=os.path.join(ROOT, ".build", "miri-" + cfg))


def matrix():
    """(binary, cfg, key) - the smallest full bounds: N=2, P=1, I=1, one drop point, one panic"""
    import suites
    S = suites
    items = []
    for fam, conts in S.FUT_CONT.items():
        for cont in conts:
            items += S.fut(fam, cont, 2, ("std",), p=1, dr=1, pa=1)
            if cont in ("vec", "tuple"):
                items += S.fut(fam, cont, 3, ("std",), p=1, dr=1, pa=1, sw=0, dev=3)
                items += S.fut(fam, cont, 2, ("alloc",), p=1, dr=1, pa=1, sw=0)
    for fam, conts in S.STR_CONT.items():
        for cont in conts:
            items += S.strm(fam, cont, 2, ("std",), p=1, i=1, dr=1, pa=1, sw=0)
            if cont in ("vec", "tuple"):
                items += S.strm(fam, cont, 2, ("std",), p=1, i=2, dr=1, pa=1, sw=0, dev=3)
                items += S.strm(fam, cont, 2, ("alloc",), p=1, i=1, dr=1, pa=1, sw=0, dev=3)
    for fam in ("fgroup", "sgroup"):
        i = 1 if fam == "sgroup" else None
        items += S.grp(fam, ("std",), init=1, mm=2, ops=1, p=1, i=i, dr=1, pa=1, sw=0, dev=3)
        items += S.grp(fam, ("std",), keyed=1, init=2, mm=3, ops=2, p=1, i=i, dr=1, pa=1, sw=0, dev=2)
    for term in ("for_each", "try_for_each", "collect", "collect_result"):
        items += S.co(("std",), src="stream", l=2, i=2, p=1, term=term, stack="ml" if term != "collect_result" else "e", lm=1, wp=1, dr=1, pa=1, sw=0, dev=3)
        items += S.co(("std",), src="vec", l=2, term=term, stack="t" if term != "collect_result" else None, tn=1, wp=1, dr=1, pa=1, sw=0, dev=3)
    return items


def build(cfg, bins, log):
    ok = True
    for b in bins:
        cmd = ["cargo", "+nightly", "miri", "run", "--offline", "-q", "--features", FEATURE[cfg], "-p", "polldfs-drivers", "--bin", b, "--", "--help-noop"]
        # a run without --items exits with a panic; we only want the build. Use `miri setup`-free trick: build via `cargo miri run` on an empty item list.
        empty = os.path.join(ROOT, ".build", "empty.items")
        open(empty, "w").write("")
        cmd = cmd[:-2] + ["--", "--items", empty, "--threads", "1", "--out", os.path.join(ROOT, ".build", "empty.out")]
        p = subprocess.run(cmd, cwd=ENGINE, env=env_for(cfg), stdout=subprocess.PIPE, stderr=subprocess.STDOUT, text=True)
        if p.returncode not in (0,):
            ok = False
            log("miri build/run of %s (%s) failed:\n%s" % (b, cfg, p.stdout[-3000:]))
    return ok


def run_slice(job):
    binary, cfg, keys, idx, workdir, tmo = job
    items_file = os.path.join(workdir, "miri-%s-%s-%d.items" % (binary, cfg, idx))
    out_file = os.path.join(workdir, "miri-%s-%s-%d.json" % (binary, cfg, idx))
    journal = os.path.join(workdir, "miri-%s-%s-%d.journal" % (binary, cfg, idx))
    open(items_file, "w").write("\n".join(keys) + "\n")
    for f in (out_file, journal):
        if os.path.exists(f):
            os.remove(f)
    cmd = ["cargo", "+nightly", "miri", "run", "--offline", "-q", "--features", FEATURE[cfg], "-p", "polldfs-drivers", "--bin", binary, "--",
           "--items", items_file, "--targets", "2", "--threads", "1", "--track-states", "0", "--hang-secs", "100000", "--split", "1", "--journal", journal, "--out", out_file]
    t0 = time.time()
    try:
        p = subprocess.run(cmd, cwd=ENGINE, env=env_for(cfg), stdout=subprocess.PIPE, stderr=subprocess.PIPE, text=True, timeout=tmo)
    except subprocess.TimeoutExpired:
        return {"status": "timeout", "binary": binary, "cfg": cfg, "keys": keys}
    res = None
    if os.path.exists(out_file):
        try:
            res = json.load(open(out_file))
        except Exception:
            pass
    ub = "Undefined Behavior" in p.stderr or "error: unsupported operation" in p.stderr or "memory leaked" in p.stderr
    jr = open(journal).read().split() if os.path.exists(journal) else []
    return {"status": "ub" if ub else ("ok" if p.returncode in (0, 1) and res is not None else "machinery"), "rc": p.returncode, "binary": binary, "cfg": cfg, "keys": keys,
            "res": res, "stderr": p.stderr[-3000:], "journal": jr, "wall_s": time.time() - t0}


def run(plan, tier, log, root):
    out = {"coverage": {}, "violations": [], "machinery": []}
    items = matrix()
    groups = {}
    for (b, c, k) in items:
        groups.setdefault((b, c), []).append(k)
    workdir = os.path.join(ROOT, ".build", "work", "miri")
    os.makedirs(workdir, exist_ok=True)
    # build sequentially per cfg (one target dir per cfg), binaries of one cfg one after the other
    for cfg in sorted({c for (_, c) in groups}):
        if not build(cfg, sorted({b for (b, c) in groups if c == cfg}), log):
            out["machinery"].append("polldfs did not build / start under Miri (%s)" % cfg)
            return out
    jobs = []
    for (b, c), keys in sorted(groups.items()):
        for i, k in enumerate(keys):
            jobs.append((b, c, [k], i, workdir, 3000))
    with ThreadPoolExecutor(max_workers=16) as ex:
        rs = list(ex.map(run_slice, jobs))
    execs = 0
    rows = []
    for r in rs:
        if r["status"] == "ok":
            execs += r["res"]["executions"]
            rows.append({"binary": r["binary"], "cfg": r["cfg"], "item": r["keys"][0], "executions": r["res"]["executions"], "wall_s": round(r["wall_s"], 1)})
            for f in r["res"].get("found", []):
                os.makedirs(os.path.join(ROOT, "replays"), exist_ok=True)
                h = hashlib.sha1((f["item"] + repr(f["choices"])).encode()).hexdigest()[:10]
                path = os.path.join(ROOT, "replays", "C02-miri-%s.json" % h)
                json.dump({"engine": "polldfs", "property": "C02", "binary": r["binary"], "crate_cfg": r["cfg"], "item": f["item"], "choices": [c[0] for c in f["choices"]], "verdict": f["msg"], "under": "miri"}, open(path, "w"), indent=1)
                out["violations"].append({"item": f["item"], "msg": f["msg"], "replay": path})
        elif r["status"] == "ub":
            os.makedirs(os.path.join(ROOT, "replays"), exist_ok=True)
            prefix = [int(x) for x in r["journal"][1].split(",")] if len(r["journal"]) > 1 and r["journal"][1] else []
            h = hashlib.sha1((r["keys"][0] + repr(prefix)).encode()).hexdigest()[:10]
            path = os.path.join(ROOT, "replays", "C02-miri-%s.json" % h)
            json.dump({"engine": "miri", "property": "C02", "binary": r["binary"], "crate_cfg": r["cfg"], "item": r["keys"][0], "choices": prefix,
                       "verdict": "Miri reported undefined behaviour / a leak while executing this trace", "miri_report": r["stderr"]}, open(path, "w"), indent=1)
            out["violations"].append({"item": r["keys"][0], "msg": "Miri: undefined behaviour or leak (see replay file)", "replay": path})
        elif r["status"] == "timeout":
            out["machinery"].append("miri slice timed out: %s" % r["keys"][0])
        else:
            out["machinery"].append("miri slice failed (rc=%s): %s\n%s" % (r.get("rc"), r["keys"][0], r.get("stderr", "")[-1500:]))
    out["coverage"] = {"executions_under_miri": execs, "items": len(rows), "runs": rows,
                       "note": "same exhaustive enumeration as the native run at the smallest bounds, interpreted by Miri (UB, use of uninitialised memory, double free, leaks become failures)"}
    return out


def replay(rec, log):
    cfg, binary = rec["crate_cfg"], rec["binary"]
    cmd = ["cargo", "+nightly", "miri", "run", "--offline", "-q", "--features", FEATURE[cfg], "-p", "polldfs-drivers", "--bin", binary, "--",
           "--replay", rec["item"], "--choices", ",".join(map(str, rec["choices"])), "--targets", "2"]
    p = subprocess.run(cmd, cwd=ENGINE, env=env_for(cfg), stdout=subprocess.PIPE, stderr=subprocess.PIPE, text=True)
    print(p.stdout[-3000:])
    if "Undefined Behavior" in p.stderr or "memory leaked" in p.stderr or p.returncode == 1:
        print(p.stderr[-3000:])
        print("VIOLATION property=C02 replay=%s" % rec.get("_path", ""))
        return 1
    return 0 if p.returncode == 0 else 2
