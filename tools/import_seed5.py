#!/usr/bin/env python3
"""validate (tools/validate_seed.sh) and import the round-5 sub-agent deliveries under /tmp/seed5/out/<Uxx>/<A|B> into /verif/seeded/<Uxx>-<A|B>"""
import json, os, re, shutil, subprocess, sys
BASE = os.environ.get('SEEDBASE', '/tmp/seed5')
ROUND = int(os.environ.get('SEEDROUND', '5'))
PROP = {}
for l in open(BASE + '/agents.txt'):
    a, p = l.split()
    PROP[a] = p
for aid in sys.argv[1:]:
    for v in ('A', 'B'):
        out = f'{BASE}/out/{aid}/{v}'
        if not os.path.exists(out + '/patch.diff') or not os.path.exists(out + '/demo.rs'):
            continue
        subprocess.run(['bash', '/verif/tools/validate_seed.sh', aid, v, BASE])
        res = dict(l.strip().split('=', 1) for l in open(out + '/validation.txt') if '=' in l)
        ok = res.get('demo_without_patch') == 'pass' and res.get('demo_with_patch', '').startswith('fail') and res.get('suite_with_patch') == 'pass'
        print(aid, v, res, 'OK' if ok else 'REJECTED', flush=True)
        if not ok:
            continue
        sid = f'{aid}-{v}'
        dst = f'/verif/seeded/{sid}'
        os.makedirs(dst, exist_ok=True)
        for f in ('patch.diff', 'demo.rs', 'notes.md'):
            if os.path.exists(f'{out}/{f}'):
                shutil.copy(f'{out}/{f}', f'{dst}/{f}')
        files = re.findall(r'^\+\+\+ b/(\S+)', open(out + '/patch.diff').read(), re.M)
        notes = open(out + '/notes.md').read() if os.path.exists(out + '/notes.md') else ''
        meta = {"id": sid, "property": PROP[aid], "round": ROUND,
                "source": "independent sub-agent given only the property record, a focus area (round 5: depth / wide shapes / later rounds; round 6: environment dimensions a harness tends to forget), the list of changes already known for that property, and a scratch worktree",
                "files_changed": files, "needs_short": "", "needs_to_manifest": "see notes.md",
                "confirmed_by_me": {"demo_without_patch": res.get('demo_without_patch'), "demo_with_patch": res.get('demo_with_patch'), "existing_suite_with_patch": res.get('suite_with_patch'),
                                    "tests_ok_with_patch": int(res.get('suite_ok_count', 0)),
                                    "commands": ["cp demo.rs tests/seed_demo.rs && cargo test --offline --test seed_demo   (clean tree: pass)", "git apply patch.diff && cargo test --offline --test seed_demo   (patched: fail)", "rm tests/seed_demo.rs && cargo test --offline --workspace --no-fail-fast   (patched: all pass)"],
                                    "where": f"scratch worktree {BASE}/{aid} (removed afterwards)"}}
        json.dump(meta, open(dst + '/meta.json', 'w'), indent=1)
