#!/usr/bin/env python3
"""Render /scratch/mut/matrix.json (written by tools/mutants.py) as the markdown table of DESIGN.md §14."""
import json
import os
import sys

ROOT = os.path.dirname(os.path.dirname(os.path.abspath(__file__)))
m = json.load(open(sys.argv[1] if len(sys.argv) > 1 else "/scratch/mut/matrix.json"))
print("| seeded change | breaks | file changed | needs | target check | also reported by |")
print("|---|---|---|---|---|---|")
missed = []
for sid in sorted(m):
    row = m[sid]
    meta = json.load(open(os.path.join(ROOT, "seeded", sid, "meta.json")))
    tgt = row["_target"]
    hit = sorted(p for p in row if not p.startswith("_") and row[p]["rc"] == 1)
    mach = sorted(p for p in row if not p.startswith("_") and row[p]["rc"] == 2)
    t = row.get(tgt, {})
    tstate = "**caught**" if t.get("rc") == 1 else ("machinery error" if t.get("rc") == 2 else "MISSED")
    if t.get("rc") != 1:
        missed.append(sid)
    others = ", ".join(p for p in hit if p != tgt) or "-"
    if mach:
        others += " (exit 2: %s)" % ", ".join(mach)
    print("| %s | %s | %s | %s | %s | %s |" % (sid, tgt, ", ".join(f.replace("src/", "") for f in meta["files_changed"]), meta.get("needs_short", ""), tstate, others))
print()
print("missed by the target property's quick check:", ", ".join(missed) or "none")
