#!/usr/bin/env python3
"""import the property-preserving changes written by the benign-change sub-agents (/tmp/benign5/out/<Bx>/<k>) into /verif/benign/<Bx>-<k>
after confirming that the existing suite passes with each of them"""
import json, os, re, shutil, subprocess, sys
for b in sys.argv[1:]:
    wt = f'/tmp/benign5/{b}'
    for k in sorted(os.listdir(f'/tmp/benign5/out/{b}')):
        out = f'/tmp/benign5/out/{b}/{k}'
        if not os.path.exists(out + '/patch.diff'):
            continue
        subprocess.run(['git', '-C', wt, 'checkout', '-q', '--', '.'])
        if subprocess.run(['git', '-C', wt, 'apply', out + '/patch.diff']).returncode != 0:
            print(b, k, 'apply FAILED'); continue
        r = subprocess.run('cargo test --offline --workspace --no-fail-fast 2>&1 | grep -c "^test .* ok$"; cargo build --offline --no-default-features --features alloc 2>&1 | grep -c "^error"; cargo build --offline --no-default-features 2>&1 | grep -c "^error"', shell=True, cwd=wt, capture_output=True, text=True)
        nums = r.stdout.split()
        subprocess.run(['git', '-C', wt, 'checkout', '-q', '--', '.'])
        ok = nums[:3] == ['123', '0', '0']
        print(b, k, nums, 'OK' if ok else 'REJECTED', flush=True)
        if not ok:
            continue
        dst = f'/verif/benign/{b}-{k}'
        os.makedirs(dst, exist_ok=True)
        shutil.copy(out + '/patch.diff', dst + '/patch.diff')
        if os.path.exists(out + '/notes.md'):
            shutil.copy(out + '/notes.md', dst + '/notes.md')
        files = re.findall(r'^\+\+\+ b/(\S+)', open(out + '/patch.diff').read(), re.M)
        json.dump({"id": f'{b}-{k}', "kind": "benign", "source": "sub-agent given all 20 property statements and asked for behaviour-changing, property-preserving changes", "what": "see notes.md", "files_changed": files}, open(dst + '/meta.json', 'w'), indent=1)
