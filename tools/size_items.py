#!/usr/bin/env python3
"""Sizing aid: run every distinct item of a plan with an execution cap and list the ones that exceed it.
   tools/size_items.py C16 thorough [cap] [cfg]"""
import json
import os
import subprocess
import sys

ROOT = os.path.dirname(os.path.dirname(os.path.abspath(__file__)))
sys.path.insert(0, os.path.join(ROOT, "lib"))
import suites  # noqa: E402

prop, tier = sys.argv[1], sys.argv[2]
cap = int(sys.argv[3]) if len(sys.argv) > 3 else 5_000_000
cfg = sys.argv[4] if len(sys.argv) > 4 else "std"
plan = suites.suite(prop, tier)
todo = {}
for b, c, k in plan["items"]:
    if c == cfg:
        todo.setdefault(b, []).append(k)
os.makedirs("/scratch/t", exist_ok=True)
for b, keys in todo.items():
    for k in keys:
        open("/scratch/t/size.items", "w").write(k + "\n")
        subprocess.run([os.path.join(ROOT, ".build", cfg, "release", b), "--items", "/scratch/t/size.items", "--targets", prop[1:].lstrip("0"), "--max-execs", str(cap),
                        "--out", "/scratch/t/size.json", "--track-states", "0"], stdout=subprocess.PIPE, stderr=subprocess.PIPE, text=True)
        d = json.load(open("/scratch/t/size.json"))
        if not d["complete"]:
            print("CAP  %10d %5.1fs %s %s" % (d["executions"], d["wall_s"], b, k), flush=True)
        elif d["executions"] > cap // 10:
            print("big  %10d %5.1fs %s %s" % (d["executions"], d["wall_s"], b, k), flush=True)
