#!/usr/bin/env python3
"""Regenerate the detection table of DESIGN.md §14 from the matrix written by tools/mutants.py.
   tools/design_table.py /scratch/mut/matrix.json [more.json ...]   (later files override earlier ones per seed/property)"""
import json
import os
import re
import sys

ROOT = os.path.dirname(os.path.dirname(os.path.abspath(__file__)))
m = {}
for f in sys.argv[1:]:
    for sid, row in json.load(open(f)).items():
        m.setdefault(sid, {}).update(row)

lines = ["| id | breaks | file(s) changed | what it needs to manifest | target check (quick) | first counterexample: item; verdict | also reported by |",
         "|---|---|---|---|---|---|---|"]
caught = missed = 0
for sid in sorted(d for d in os.listdir(os.path.join(ROOT, "seeded")) if os.path.isdir(os.path.join(ROOT, "seeded", d))):
    meta = json.load(open(os.path.join(ROOT, "seeded", sid, "meta.json")))
    p = meta["property"]
    row = m.get(sid, {})
    r = row.get(p)
    if r is None:
        state, item, how = "not run", "", ""
    else:
        ok = r["rc"] == 1
        caught += ok
        missed += (not ok)
        state = "**caught**" if ok else "**not reported** (see below)"
        first = r.get("first", "")
        item = first.split(" [", 1)[0]
        how = first.split("] ", 1)[1] if "] " in first else ""
        how = re.sub(r"\s+", " ", how)[:120]
    also = ", ".join(sorted(q for q in row if not q.startswith("_") and q != p and row[q]["rc"] == 1)) or "-"
    mach = sorted(q for q in row if not q.startswith("_") and row[q]["rc"] not in (0, 1))
    if mach:
        also += " (exit 2: %s)" % ", ".join(mach)
    files = ", ".join(f.replace("src/", "") for f in meta["files_changed"])
    lines.append("| %s | %s | %s | %s | %s | `%s`; %s | %s |" % (sid, p, files, meta["needs_short"], state, item, how, also))
print("\n".join(lines))
print()
print("target check reported %d of %d" % (caught, caught + missed), file=sys.stderr)
