#!/bin/bash
# usage: validate_seed.sh <id> <variant>   - confirms a sub-agent's seeded change in its scratch worktree
# result lines go to /tmp/seed/out/<id>/<variant>/validation.txt
id=$1; v=$2
base=${3:-/tmp/seed}; wt=$base/$id; out=$base/out/$id/$v
cd $wt || exit 2
git checkout -q -- . ; rm -f tests/seed_demo.rs
res=$out/validation.txt; : > $res
extra=""
cp $out/demo.rs tests/seed_demo.rs
if cargo test --offline $extra --test seed_demo >$out/v_demo_clean.log 2>&1; then echo "demo_without_patch=pass" >> $res; else echo "demo_without_patch=FAIL" >> $res; fi
if ! git apply $out/patch.diff 2>>$res; then echo "apply=FAIL" >> $res; git checkout -q -- .; rm -f tests/seed_demo.rs; exit 1; fi
if cargo test --offline $extra --test seed_demo >$out/v_demo_patched.log 2>&1; then echo "demo_with_patch=PASS(unexpected)" >> $res; else echo "demo_with_patch=fail(expected)" >> $res; fi
rm -f tests/seed_demo.rs
if cargo test --offline --workspace --no-fail-fast >$out/v_suite_patched.log 2>&1; then echo "suite_with_patch=pass" >> $res; else echo "suite_with_patch=FAIL" >> $res; fi
grep -c "^test .* ok$" $out/v_suite_patched.log | sed 's/^/suite_ok_count=/' >> $res
echo "extra_flags=$extra" >> $res
git checkout -q -- .
