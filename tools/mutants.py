#!/usr/bin/env python3
"""Run the registered quick (or thorough) checks against seeded property-breaking changes.

Each seeded change lives in /verif/seeded/<id>/patch.diff. For every change a scratch git worktree of /repo
(outside /repo and /verif) is created, the patch applied there, and `./check <prop>` is run with the
engines' `futures-concurrency` dependency redirected to that worktree (cargo `paths` override) and with
build output / evidence / replays redirected to scratch directories, so that neither /repo nor the
committed evidence is touched. The worktree is removed afterwards.

  tools/mutants.py [--dir seeded|benign] [--scratch DIR] [--only ID,ID] [--props C01,C04|all|target] [--tier quick] [--out FILE]

Exit code 0 always; the detection matrix is written as JSON.
"""
import json
import os
import shutil
import subprocess
import sys
import time

ROOT = os.path.dirname(os.path.dirname(os.path.abspath(__file__)))
SCRATCH = "/scratch/mut"
SEEDDIR = "seeded"
ALL = ["C01", "C02", "C03", "C04", "C05", "C06", "C07", "C08", "C09", "C10", "C11", "C12", "C13", "C14", "C15", "C16", "C17", "C19", "C20"]


def arg(name, d=None):
    a = sys.argv
    return a[a.index(name) + 1] if name in a else d


def main():
    global SCRATCH, SEEDDIR
    SCRATCH = arg("--scratch", SCRATCH)
    SEEDDIR = arg("--dir", SEEDDIR)   # "seeded" (property-breaking) or "benign" (property-preserving: every check must stay silent)
    only = arg("--only")
    props_arg = arg("--props", "all")
    tier = arg("--tier", "quick")
    out_file = arg("--out", os.path.join(SCRATCH, "matrix.json"))
    seeds = sorted(d for d in os.listdir(os.path.join(ROOT, SEEDDIR)) if os.path.exists(os.path.join(ROOT, SEEDDIR, d, "patch.diff")))
    if only:
        seeds = [s for s in seeds if s in only.split(",")]
    os.makedirs(SCRATCH, exist_ok=True)
    matrix = {}
    if os.path.exists(out_file):
        matrix = json.load(open(out_file))
    for sid in seeds:
        meta = json.load(open(os.path.join(ROOT, SEEDDIR, sid, "meta.json")))
        wt = os.path.join(SCRATCH, "repo-" + sid)
        subprocess.run(["git", "-C", "/repo", "worktree", "remove", "--force", wt], stdout=subprocess.DEVNULL, stderr=subprocess.DEVNULL)
        subprocess.run(["git", "-C", "/repo", "worktree", "add", "--detach", wt, "HEAD"], check=True, stdout=subprocess.DEVNULL, stderr=subprocess.DEVNULL)
        try:
            subprocess.run(["git", "-C", wt, "apply", os.path.join(ROOT, SEEDDIR, sid, "patch.diff")], check=True)
            if props_arg == "all":
                props = ALL
            elif props_arg == "target":
                props = [meta["property"]]
            else:
                props = props_arg.split(",")
            env = dict(os.environ, FC_REPO_OVERRIDE=wt, VERIF_BUILD_DIR=os.path.join(SCRATCH, "build"), VERIF_OUT_DIR=os.path.join(SCRATCH, "out-" + sid), VERIF_TIER=tier)
            row = matrix.get(sid, {})
            for p in props:
                t0 = time.time()
                r = subprocess.run([os.path.join(ROOT, "check"), p, "--tier", tier], cwd=ROOT, env=env, stdout=subprocess.PIPE, stderr=subprocess.PIPE, text=True)
                first = next((l for l in r.stderr.splitlines() if l.startswith("  ")), "")
                row[p] = {"rc": r.returncode, "violations": r.stdout.count("VIOLATION"), "wall_s": round(time.time() - t0, 1), "first": first.strip()[:300],
                          "machinery": [l for l in r.stderr.splitlines() if l.startswith("MACHINERY")][:2]}
                print("%s %s rc=%d viol=%d %.0fs %s" % (sid, p, r.returncode, row[p]["violations"], row[p]["wall_s"], first.strip()[:160]), flush=True)
            row["_target"] = meta.get("property", "-")
            matrix[sid] = row
            json.dump(matrix, open(out_file, "w"), indent=1)
        finally:
            subprocess.run(["git", "-C", "/repo", "worktree", "remove", "--force", wt], stdout=subprocess.DEVNULL, stderr=subprocess.DEVNULL)
            shutil.rmtree(os.path.join(SCRATCH, "out-" + sid), ignore_errors=True)


if __name__ == "__main__":
    main()
