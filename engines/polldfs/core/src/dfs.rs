//! Stateless depth-first exploration of the choice tree (re-execution from a choice prefix),
//! a worker pool over (item, prefix) tasks, a hang watchdog, statistics and reports.

use crate::exec::reset_drops;
use crate::world::*;
use std::collections::HashSet;
use std::hash::{BuildHasherDefault, Hasher};
use std::sync::atomic::{AtomicBool, AtomicU64, AtomicUsize, Ordering};
use std::sync::{Arc, Mutex};
use std::time::{Duration, Instant};

#[derive(Default)]
pub struct IdHasher(u64);
impl Hasher for IdHasher {
    fn finish(&self) -> u64 {
        self.0
    }
    fn write(&mut self, bytes: &[u8]) {
        for b in bytes {
            self.0 = (self.0 << 8) ^ *b as u64;
        }
    }
    fn write_u64(&mut self, i: u64) {
        self.0 = i;
    }
}
pub type FastSet = HashSet<u64, BuildHasherDefault<IdHasher>>;

pub trait Item: Sync {
    fn cfg(&self) -> Cfg;
    fn key(&self) -> String;
    /// build the subject from scripted children and run one execution (world already reset)
    fn run(&self);
}

#[derive(Clone, Debug)]
pub struct Found {
    pub item: usize,
    pub prop: u8,
    pub msg: String,
    pub choices: Vec<(u16, u16)>,
    pub hang: bool,
}

#[derive(Clone, Debug, Default)]
pub struct ItemStats {
    pub executions: u64,
    pub nontrivial: u64,
    pub nodes: u64,
    pub steps: u64,
    pub max_len: u32,
    pub outcomes: usize,
    pub failed: bool,
    pub complete: bool,
    pub max_devs: u32,
}

pub struct Sample {
    pub item: usize,
    pub choices: Vec<(u16, u16)>,
    pub outcome: u64,
}

pub struct Report {
    pub items: Vec<ItemStats>,
    pub found: Vec<Found>,
    pub other_props: [u64; NPROP],
    pub abstract_states: usize,
    pub states_capped: bool,
    pub samples: Vec<Sample>,
    pub wall_s: f64,
    pub complete: bool,
    pub stop_reason: String,
    pub diverged: u64,
}

pub struct Opts {
    pub threads: usize,
    /// violations of these properties are failures (others are only counted)
    pub targets: Vec<u8>,
    pub max_fail: usize,
    pub time_limit_s: f64,
    pub max_execs: u64,
    pub split: usize,
    pub hang_secs: u64,
    pub track_states: bool,
    pub state_cap: usize,
    /// write "<item index> <choice prefix>" to this file before every execution (crash triage; use 1 thread)
    pub journal: Option<String>,
}

pub fn devs_of(prefix: &[u16]) -> u32 {
    prefix.iter().filter(|&&c| c != 0).count() as u32
}

/// next choice prefix in DFS order that keeps `frozen` fixed and respects the deviation bound
///
/// `class = (r, k)` restricts the search to the executions whose first non-default choice after the
/// frozen prefix sits at a position congruent to r modulo k (the all-default execution belongs to
/// class 0): the k classes partition the subtree, which balances the long "comb" shaped trees of
/// deviation-bounded items over the workers.
pub fn next_prefix(rec: &[(u16, u16)], frozen: usize, dev: u32, class: (u16, u16)) -> Option<(Vec<u16>, usize)> {
    let mut devs: u32 = rec.iter().filter(|r| r.0 != 0).count() as u32;
    let first_dev = rec[frozen.min(rec.len())..].iter().position(|r| r.0 != 0).map(|p| p + frozen).unwrap_or(rec.len());
    for i in (frozen..rec.len()).rev() {
        let (c, a) = rec[i];
        if c != 0 {
            devs -= 1;
        }
        if class.1 > 1 && i <= first_dev && ((i - frozen) % class.1 as usize) != class.0 as usize {
            continue;
        }
        // devs = deviations strictly before i
        if c + 1 < a && devs + 1 <= dev {
            let mut p: Vec<u16> = rec[..i].iter().map(|r| r.0).collect();
            p.push(c + 1);
            return Some((p, i));
        }
    }
    None
}

pub struct ExecOut {
    pub rec_len: usize,
    pub outcome: u64,
    pub steps: u32,
    pub diverged: bool,
    pub devs: u32,
}

/// Run one execution of `item` with the given forced prefix. The choice record, violations and
/// event log stay in the thread-local world for the caller to inspect.
pub fn run_once<I: Item + ?Sized>(item: &I, prefix: &[u16], log: bool, track: bool) -> ExecOut {
    let cfg = item.cfg();
    with(|w| {
        w.reset(cfg, prefix);
        w.log_events = log;
        w.track_states = track;
    });
    reset_drops();
    // Constructing the subject (with_capacity / from_iter / extend before the first poll) runs crate code outside any
    // catch_unwind of the executor loop: a panic there is a verdict of the subject's home property, not an engine crash.
    if let Err(p) = std::panic::catch_unwind(std::panic::AssertUnwindSafe(|| item.run())) {
        let m = p.downcast_ref::<&str>().map(|s| s.to_string()).or_else(|| p.downcast_ref::<String>().cloned()).unwrap_or_else(|| "non-string panic payload".to_string());
        WORLD.with(|w| {
            if let Ok(mut w) = w.try_borrow_mut() {
                let home = w.combs.first().map(|c| c.home).unwrap_or(1);
                w.stack.clear();
                w.violate(home, || format!("constructing or finishing the subject panicked outside the combinator's poll: {}", m));
            }
        });
    }
    with(|w| ExecOut { rec_len: w.ch.rec.len(), outcome: w.outcome, steps: w.steps, diverged: w.ch.diverged, devs: w.ch.devs })
}

struct Shared<'a, I: Item> {
    items: &'a [I],
    tasks: Vec<(usize, Vec<u16>, (u16, u16))>,
    next: AtomicUsize,
    stop: AtomicBool,
    failed: Vec<AtomicBool>,
    found: Mutex<Vec<Found>>,
    execs: AtomicU64,
}

struct WorkerOut {
    stats: Vec<ItemStats>,
    outcomes: Vec<FastSet>,
    states: FastSet,
    capped: bool,
    other: [u64; NPROP],
    samples: Vec<Sample>,
    diverged: u64,
}

pub struct Beat {
    pub count: AtomicU64,
    pub cur: Mutex<(usize, Vec<u16>)>,
    pub busy: AtomicBool,
}

fn worker<I: Item>(sh: &Shared<I>, opts: &Opts, beat: &Beat, deadline: Instant) -> WorkerOut {
    let n = sh.items.len();
    let mut out = WorkerOut {
        stats: vec![ItemStats::default(); n],
        outcomes: (0..n).map(|_| FastSet::default()).collect(),
        states: FastSet::default(),
        capped: false,
        other: [0; NPROP],
        samples: Vec::new(),
        diverged: 0,
    };
    loop {
        if sh.stop.load(Ordering::Relaxed) {
            break;
        }
        let t = sh.next.fetch_add(1, Ordering::Relaxed);
        if t >= sh.tasks.len() {
            break;
        }
        let (ii, ref base, class) = sh.tasks[t];
        if sh.failed[ii].load(Ordering::Relaxed) {
            continue;
        }
        let item = &sh.items[ii];
        let dev = item.cfg().dev;
        let frozen = base.len();
        let mut prefix = base.clone();
        let mut new_from = frozen; // nodes at positions >= new_from are new in this execution
        let mut first = true;
        let mut iter: u32 = 0;
        loop {
            {
                let mut c = beat.cur.lock().unwrap();
                c.0 = ii;
                c.1.clear();
                c.1.extend_from_slice(&prefix);
            }
            if let Some(j) = &opts.journal {
                let line = format!("{} {}\n", ii, prefix.iter().map(|c| c.to_string()).collect::<Vec<_>>().join(","));
                let _ = std::fs::write(j, line);
            }
            beat.busy.store(true, Ordering::Relaxed);
            let eo = run_once(item, &prefix, false, opts.track_states && !out.capped);
            beat.busy.store(false, Ordering::Relaxed);
            beat.count.fetch_add(1, Ordering::Relaxed);
            let st = &mut out.stats[ii];
            // the base execution of a task is shared by its classes: count it in class 0 only
            let counted = !(first && class.0 != 0);
            if counted {
                st.executions += 1;
                if eo.devs > 0 {
                    st.nontrivial += 1;
                }
                st.nodes += (eo.rec_len.saturating_sub(new_from)) as u64 + if first { 1 } else { 0 };
                st.steps += eo.steps as u64;
            }
            st.max_len = st.max_len.max(eo.rec_len as u32);
            st.max_devs = st.max_devs.max(eo.devs);
            out.outcomes[ii].insert(eo.outcome);
            if eo.diverged {
                out.diverged += 1;
            }
            let mut fail = false;
            let next = with(|w| {
                if opts.track_states && !out.capped {
                    for h in w.abstract_hashes.drain(..) {
                        out.states.insert(h);
                    }
                    if out.states.len() > opts.state_cap {
                        out.capped = true;
                    }
                }
                if !w.violations.is_empty() {
                    let mut seen = [false; NPROP];
                    for v in &w.violations {
                        let p = v.prop as usize;
                        if p < NPROP && !seen[p] {
                            seen[p] = true;
                            out.other[p] += 1;
                        }
                    }
                    for v in &w.violations {
                        if opts.targets.contains(&v.prop) {
                            fail = true;
                            let mut f = sh.found.lock().unwrap();
                            f.push(Found { item: ii, prop: v.prop, msg: v.msg.clone(), choices: w.ch.rec.clone(), hang: false });
                            if f.len() >= opts.max_fail {
                                sh.stop.store(true, Ordering::Relaxed);
                            }
                            break;
                        }
                    }
                }
                if first && out.samples.len() < 2 {
                    out.samples.push(Sample { item: ii, choices: w.ch.rec.clone(), outcome: w.outcome });
                }
                next_prefix(&w.ch.rec, frozen, dev, class)
            });
            first = false;
            if fail {
                sh.failed[ii].store(true, Ordering::Relaxed);
                out.stats[ii].failed = true;
                break;
            }
            iter += 1;
            if iter % 4096 == 0 {
                let total = sh.execs.fetch_add(4096, Ordering::Relaxed) + 4096;
                if Instant::now() > deadline || total > opts.max_execs {
                    sh.stop.store(true, Ordering::Relaxed);
                }
                if sh.stop.load(Ordering::Relaxed) || sh.failed[ii].load(Ordering::Relaxed) {
                    break;
                }
            }
            match next {
                Some((p, i)) => {
                    prefix = p;
                    new_from = i;
                }
                None => break,
            }
        }
    }
    out
}

/// Split an item's choice tree into at least `target` disjoint prefixes (breadth first).
/// Returns (prefixes, leaves) where leaves are complete executions met during the expansion.
fn expand<I: Item>(item: &I, ii: usize, target: usize, beat: &Beat) -> Vec<Vec<u16>> {
    let dev = item.cfg().dev;
    let mut queue: std::collections::VecDeque<Vec<u16>> = std::collections::VecDeque::new();
    let mut done: Vec<Vec<u16>> = Vec::new();
    queue.push_back(Vec::new());
    let mut budget = target * 4 + 16;
    while let Some(p) = queue.pop_front() {
        if queue.len() + done.len() + 1 >= target || budget == 0 || p.len() >= 12 {
            done.push(p);
            continue;
        }
        budget -= 1;
        {
            let mut c = beat.cur.lock().unwrap();
            c.0 = ii;
            c.1.clear();
            c.1.extend_from_slice(&p);
        }
        beat.busy.store(true, Ordering::Relaxed);
        let eo = run_once(item, &p, false, false);
        beat.busy.store(false, Ordering::Relaxed);
        beat.count.fetch_add(1, Ordering::Relaxed);
        if eo.rec_len <= p.len() {
            // complete execution: a leaf task of its own
            done.push(p);
            continue;
        }
        let arity = with(|w| w.ch.rec[p.len()].1);
        let devs = devs_of(&p);
        for alt in 0..arity {
            if alt != 0 && devs + 1 > dev {
                break;
            }
            let mut q = p.clone();
            q.push(alt);
            queue.push_back(q);
        }
    }
    done.extend(queue);
    done
}

pub fn explore<I: Item>(items: &[I], opts: &Opts, on_hang: &(dyn Fn(&Found) + Sync)) -> Report {
    let t0 = Instant::now();
    let deadline = t0 + Duration::from_secs_f64(opts.time_limit_s);
    // ---- task generation
    // (runs on its own watched thread: the crate under test may hang in the very first execution)
    let mut tasks: Vec<(usize, Vec<u16>, (u16, u16))> = Vec::new();
    {
        let beat = Arc::new(Beat { count: AtomicU64::new(0), cur: Mutex::new((0, Vec::new())), busy: AtomicBool::new(false) });
        let mut hang: Option<Found> = None;
        std::thread::scope(|s| {
            let b2 = beat.clone();
            let split = opts.split;
            let h = std::thread::Builder::new()
                .stack_size(16 << 20)
                .spawn_scoped(s, move || {
                    std::panic::set_hook(Box::new(|_| {}));
                    let mut tasks: Vec<(usize, Vec<u16>, (u16, u16))> = Vec::new();
                    for (ii, it) in items.iter().enumerate() {
                        let k: u16 = if it.cfg().dev != u32::MAX { 16 } else { 1 };
                        for p in expand(it, ii, split, &b2) {
                            for r in 0..k {
                                tasks.push((ii, p.clone(), (r, k)));
                            }
                        }
                    }
                    tasks
                })
                .unwrap();
            let mut last = (beat.count.load(Ordering::Relaxed), Instant::now());
            while !h.is_finished() {
                std::thread::sleep(Duration::from_millis(5));
                let c = beat.count.load(Ordering::Relaxed);
                if c != last.0 || !beat.busy.load(Ordering::Relaxed) {
                    last = (c, Instant::now());
                } else if last.1.elapsed() > Duration::from_secs(opts.hang_secs) {
                    let cur = beat.cur.lock().unwrap().clone();
                    hang = Some(Found {
                        item: cur.0,
                        prop: 1,
                        msg: format!("execution did not finish within {} s (deadlock or unbounded spin inside poll or a waker invocation)", opts.hang_secs),
                        choices: cur.1.iter().map(|&c| (c, 0)).collect(),
                        hang: true,
                    });
                    break;
                }
            }
            if let Some(hf) = &hang {
                on_hang(hf);
                std::process::exit(3);
            }
            tasks = h.join().unwrap();
        });
    }
    // interleave tasks of different items so that early stops and load are spread
    let sh = Shared {
        items,
        tasks,
        next: AtomicUsize::new(0),
        stop: AtomicBool::new(false),
        failed: (0..items.len()).map(|_| AtomicBool::new(false)).collect(),
        found: Mutex::new(Vec::new()),
        execs: AtomicU64::new(0),
    };
    let beats: Vec<Arc<Beat>> = (0..opts.threads)
        .map(|_| Arc::new(Beat { count: AtomicU64::new(0), cur: Mutex::new((0, Vec::new())), busy: AtomicBool::new(false) }))
        .collect();
    let mut outs: Vec<WorkerOut> = Vec::new();
    let mut hang: Option<Found> = None;
    std::thread::scope(|s| {
        let mut handles = Vec::new();
        for t in 0..opts.threads {
            let sh = &sh;
            let beat = beats[t].clone();
            let h = std::thread::Builder::new()
                .stack_size(16 << 20)
                .spawn_scoped(s, move || {
                    std::panic::set_hook(Box::new(|_| {}));
                    worker(sh, opts, &beat, deadline)
                })
                .unwrap();
            handles.push(Some(h));
        }
        // watchdog
        let mut last: Vec<(u64, Instant)> = beats.iter().map(|b| (b.count.load(Ordering::Relaxed), Instant::now())).collect();
        loop {
            let mut all_done = true;
            for h in handles.iter() {
                if let Some(h) = h {
                    if !h.is_finished() {
                        all_done = false;
                    }
                }
            }
            if all_done {
                break;
            }
            std::thread::sleep(Duration::from_millis(20));
            for (t, b) in beats.iter().enumerate() {
                let c = b.count.load(Ordering::Relaxed);
                if c != last[t].0 || !b.busy.load(Ordering::Relaxed) {
                    last[t] = (c, Instant::now());
                } else if last[t].1.elapsed() > Duration::from_secs(opts.hang_secs) {
                    let cur = b.cur.lock().unwrap().clone();
                    hang = Some(Found {
                        item: cur.0,
                        prop: 1,
                        msg: format!("execution did not finish within {} s (deadlock or unbounded spin inside poll or a waker invocation)", opts.hang_secs),
                        choices: cur.1.iter().map(|&c| (c, 0)).collect(),
                        hang: true,
                    });
                    break;
                }
            }
            if hang.is_some() {
                break;
            }
        }
        if let Some(h) = &hang {
            // a worker is stuck inside crate code: it can never be joined. Report from here and leave.
            on_hang(h);
            std::process::exit(3);
        }
        for h in handles.iter_mut() {
            outs.push(h.take().unwrap().join().unwrap());
        }
    });
    let mut rep = Report {
        items: vec![ItemStats::default(); items.len()],
        found: sh.found.lock().unwrap().clone(),
        other_props: [0; NPROP],
        abstract_states: 0,
        states_capped: false,
        samples: Vec::new(),
        wall_s: 0.0,
        complete: true,
        stop_reason: String::new(),
        diverged: 0,
    };
    let mut all_states = FastSet::default();
    let mut outcome_sets: Vec<FastSet> = (0..items.len()).map(|_| FastSet::default()).collect();
    for o in outs {
        for (i, s) in o.stats.iter().enumerate() {
            let r = &mut rep.items[i];
            r.executions += s.executions;
            r.nontrivial += s.nontrivial;
            r.nodes += s.nodes;
            r.steps += s.steps;
            r.max_len = r.max_len.max(s.max_len);
            r.max_devs = r.max_devs.max(s.max_devs);
            r.failed |= s.failed;
        }
        for (i, s) in o.outcomes.into_iter().enumerate() {
            outcome_sets[i].extend(s);
        }
        if all_states.len() <= opts.state_cap * 4 {
            all_states.extend(o.states);
        }
        rep.states_capped |= o.capped;
        for p in 0..NPROP {
            rep.other_props[p] += o.other[p];
        }
        rep.samples.extend(o.samples);
        rep.diverged += o.diverged;
    }
    for (i, s) in outcome_sets.iter().enumerate() {
        rep.items[i].outcomes = s.len();
    }
    rep.abstract_states = all_states.len();
    let stopped = sh.stop.load(Ordering::Relaxed);
    if stopped {
        rep.complete = false;
        rep.stop_reason = if rep.found.len() >= opts.max_fail {
            "max failures reached".into()
        } else if Instant::now() > deadline {
            "time limit".into()
        } else {
            "execution cap".into()
        };
    }
    for (i, r) in rep.items.iter_mut().enumerate() {
        r.complete = !stopped && !sh.failed[i].load(Ordering::Relaxed);
    }
    if !rep.found.is_empty() && !stopped {
        rep.complete = false;
        rep.stop_reason = "violations".into();
    }
    rep.wall_s = t0.elapsed().as_secs_f64();
    rep
}

// ---------------------------------------------------------------------------------------
// rendering
// ---------------------------------------------------------------------------------------

pub fn jstr(s: &str) -> String {
    let mut o = String::with_capacity(s.len() + 2);
    o.push('"');
    for c in s.chars() {
        match c {
            '"' => o.push_str("\\\""),
            '\\' => o.push_str("\\\\"),
            '\n' => o.push_str("\\n"),
            '\t' => o.push_str("\\t"),
            c if (c as u32) < 0x20 => o.push_str(&format!("\\u{:04x}", c as u32)),
            c => o.push(c),
        }
    }
    o.push('"');
    o
}

pub fn choices_json(c: &[(u16, u16)]) -> String {
    let v: Vec<String> = c.iter().map(|(c, a)| format!("[{},{}]", c, a)).collect();
    format!("[{}]", v.join(","))
}

pub fn render_events(w: &World) -> Vec<String> {
    let mut out = Vec::new();
    let mut depth = 0usize;
    for e in &w.events {
        let ind = "  ".repeat(depth);
        match e {
            Ev::CombPoll(k, g) => {
                out.push(format!("{}poll combinator #{} ({:?}) with fresh waker generation {}", ind, k, w.combs[*k as usize].fam, g));
                depth += 1;
            }
            Ev::CombRet(k, l) => {
                depth = depth.saturating_sub(1);
                out.push(format!("{}combinator #{} returned {:?}", "  ".repeat(depth), k, l));
            }
            Ev::ChildPoll(c, _) => {
                let r = &w.children[*c as usize];
                out.push(format!("{}poll child {} (owner #{}, slot {}{})", ind, c, r.owner, r.slot, if r.is_inner { ", nested combinator" } else { "" }));
            }
            Ev::ChildAns(c, a, e) => out.push(format!("{}child {} answers {:?}{}", ind, c, a, if *e { " (Err)" } else { "" })),
            Ev::Fire(wid, ch, cur, inside) => out.push(format!(
                "{}invoke waker record {} of child {} ({}{})",
                ind,
                wid,
                ch,
                if *cur { "current" } else { "stale" },
                if *inside { ", from inside a child's poll" } else { "" }
            )),
            Ev::ParentWoken(k, g, latest) => out.push(format!("{}waker of combinator #{} generation {} woken{}", ind, k, g, if *latest { " (latest)" } else { " (old generation)" })),
            Ev::Spurious => out.push(format!("{}spurious poll", ind)),
            Ev::DropSubject => out.push(format!("{}drop the subject", ind)),
            Ev::Op(0, a, b) => out.push(format!("{}group.insert(child {}) -> key slot {}", ind, a, b)),
            Ev::Op(1, a, _) => out.push(format!("{}group.remove(key slot {})", ind, a)),
            Ev::Op(2, a, b) => out.push(format!("{}group.extend([child {}, child {}])", ind, a, b)),
            Ev::Op(o @ 3..=5, a, _) => out.push(format!("{}group.reserve({})  (op {})", ind, a, o)),
            Ev::Op(o, a, b) => out.push(format!("{}group op {} ({}, {})", ind, o, a, b)),
            Ev::Note(0xF1FA) => out.push(format!("{}poll the subject once more after its final result (probe)", ind)),
            Ev::Note(n) if *n & 0x8000_0000 != 0 => {
                let (stage, seq) = ((n >> 16) & 0x7fff, n & 0xffff);
                let st = if stage == 200 { "terminal closure".to_string() } else { format!("map closure of stage {}", stage) };
                out.push(format!("{}{} invoked for source item {}", ind, st, seq))
            }
            Ev::Note(n) => out.push(format!("{}note {}", ind, n)),
        }
    }
    out
}
