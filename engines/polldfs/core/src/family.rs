//! Reference models of the combinator families, evaluated at every return of a combinator's poll
//! (top-level subject and nested inner combinators alike). They only look at what the scripted
//! children answered (in logged poll order) and at what the combinator returned.

use crate::world::*;

#[derive(Clone, Copy, PartialEq, Eq, Debug)]
pub enum RK {
    Pending,
    Plain,
    Ok,
    Err,
    Item,
    End,
}

#[derive(Debug)]
pub struct RetSig {
    pub kind: RK,
    pub top: u64,
    pub elems: Vec<u64>,
    pub is_list: bool,
    pub key: u32,
}

impl RetSig {
    pub fn pending() -> RetSig {
        RetSig { kind: RK::Pending, top: 0, elems: Vec::new(), is_list: false, key: NONE }
    }
    pub fn end() -> RetSig {
        RetSig { kind: RK::End, top: 0, elems: Vec::new(), is_list: false, key: NONE }
    }
}

pub fn home_of(f: Fam) -> u8 {
    match f {
        Fam::Join => 4,
        Fam::TryJoin => 5,
        Fam::Race => 6,
        Fam::RaceOk => 7,
        Fam::Merge => 8,
        Fam::Zip => 9,
        Fam::Chain => 10,
        Fam::FutGroup => 11,
        Fam::StrGroup => 12,
        Fam::WaitFut | Fam::WaitStr => 19,
        Fam::Co => 13,
        Fam::Opaque => 0,
    }
}

fn positional(w: &mut World, k: u16, r: &RetSig, what: &str) {
    let c = &w.combs[k as usize];
    let (fam, home) = (c.fam, c.home);
    let n = c.children.len();
    if !r.is_list || r.elems.len() != n {
        let l = r.elems.len();
        w.violate(home, || format!("{:?}#{}: {} has {} entries for {} children", fam, k, what, l, n));
        return;
    }
    for (i, &ch) in c.children.iter().enumerate() {
        let cr = &w.children[ch as usize];
        if cr.out_sig != r.elems[i] {
            w.violate(home, || format!("{:?}#{}: {} holds at position {} something other than the output of the child at that position", fam, k, what, i));
            return;
        }
    }
}

/// Called with the world borrowed, after the combinator's poll returned and before `comb_poll_end`.
pub fn family_check(w: &mut World, k: u16, r: &RetSig) {
    let (fam, home) = {
        let c = &w.combs[k as usize];
        (c.fam, c.home)
    };
    let kind = r.kind;
    // A Pending return in whose poll the task's latest waker was invoked is a cooperative yield: the
    // combinator has asked to be polled again, so "None when the last input has ended" / "None exactly
    // when empty" are not violated yet (they are if the next poll does the same without a wake-up, or at
    // quiescence). Clauses that the property ties to "the very poll" (join, try_join, race, race_ok, zip's
    // end, an available item of merge / a group, wait_until) do not use this.
    let yielded = kind == RK::Pending && w.combs[k as usize].woken;
    macro_rules! bad {
        ($($arg:tt)*) => {{ let m = format!($($arg)*); w.violate(home, || format!("{:?}#{}: {}", fam, k, m)); return; }};
    }
    match fam {
        Fam::Join => {
            let all = w.combs[k as usize].children.iter().all(|&c| {
                let r = &w.children[c as usize];
                r.finished && r.last == Ans::Ready
            });
            match kind {
                RK::Pending => {
                    if all {
                        bad!("returned Pending although every child has resolved");
                    }
                }
                RK::Plain => {
                    if !all {
                        bad!("resolved before every child resolved");
                    }
                    positional(w, k, r, "output");
                }
                _ => bad!("unexpected return kind {:?}", kind),
            }
        }
        Fam::TryJoin => {
            let first_err = w.combs[k as usize].answers.iter().find(|a| a.1 == Ans::Ready && a.3).copied();
            if let Some(e) = first_err {
                if kind != RK::Err {
                    bad!("child {} failed in this poll but the poll returned {:?}", e.0, kind);
                }
                if r.top != e.2 {
                    bad!("returned an error other than the first one observed (child {})", e.0);
                }
                w.combs[k as usize].final_err = true;
                return;
            }
            let all = w.combs[k as usize].children.iter().all(|&c| {
                let r = &w.children[c as usize];
                r.finished && r.last == Ans::Ready && !r.is_err
            });
            match kind {
                RK::Pending => {
                    if all {
                        bad!("returned Pending although every child resolved Ok");
                    }
                }
                RK::Ok => {
                    if !all {
                        bad!("resolved Ok before every child resolved Ok");
                    }
                    positional(w, k, r, "Ok output");
                }
                _ => bad!("returned {:?} although no child failed in this poll", kind),
            }
        }
        Fam::Race => {
            let first = w.combs[k as usize].answers.iter().find(|a| a.1 == Ans::Ready).copied();
            match (first, kind) {
                (Some(f), RK::Plain) => {
                    if r.top != f.2 {
                        bad!("resolved with a value other than that of the first child seen to resolve (child {})", f.0);
                    }
                }
                (Some(f), _) => bad!("child {} resolved in this poll but the race returned {:?}", f.0, kind),
                (None, RK::Pending) => {}
                (None, _) => bad!("returned {:?} although no child resolved in this poll", kind),
            }
        }
        Fam::RaceOk => {
            let first_ok = w.combs[k as usize].answers.iter().find(|a| a.1 == Ans::Ready && !a.3).copied();
            if let Some(f) = first_ok {
                if kind != RK::Ok {
                    bad!("child {} succeeded in this poll but the poll returned {:?}", f.0, kind);
                }
                if r.top != f.2 {
                    bad!("resolved Ok with a value other than that of the first child seen to succeed (child {})", f.0);
                }
                return;
            }
            let all_failed = w.combs[k as usize].children.iter().all(|&c| {
                let r = &w.children[c as usize];
                r.finished && r.last == Ans::Ready && r.is_err
            });
            match kind {
                RK::Pending => {
                    if all_failed {
                        bad!("returned Pending although every child has failed");
                    }
                }
                RK::Err => {
                    if !all_failed {
                        bad!("resolved Err before every child failed");
                    }
                    positional(w, k, r, "aggregate error");
                }
                _ => bad!("returned {:?} although no child succeeded in this poll", kind),
            }
        }
        Fam::Merge => {
            let first = w.combs[k as usize].answers.iter().find(|a| a.1 == Ans::Item).copied();
            if let Some(f) = first {
                if kind != RK::Item {
                    bad!("input {} produced an item in this poll but the poll returned {:?}", f.0, kind);
                }
                if r.top != f.2 {
                    bad!("yielded something other than the first item produced in this poll (input child {})", f.0);
                }
                // C17: an input that has an item whenever it is polled is served within any N consecutive yields
                let n = w.combs[k as usize].children.len();
                w.combs[k as usize].yields.push(f.0);
                let ys = &w.combs[k as usize].yields;
                if ys.len() >= n {
                    let window = &ys[ys.len() - n..];
                    let starved = w.combs[k as usize].children.iter().copied().find(|&c| w.children[c as usize].spec.always && !window.contains(&c));
                    if let Some(x) = starved {
                        let slot = w.children[x as usize].slot;
                        let wv: Vec<u16> = window.iter().map(|&c| w.children[c as usize].slot).collect();
                        w.violate(17, || format!("Merge#{}: input {} always has an item but none of the last {} yields came from it (origins {:?})", k, slot, n, wv));
                    }
                }
                return;
            }
            let all = w.combs[k as usize].children.iter().all(|&c| w.children[c as usize].finished);
            match kind {
                RK::Pending => {
                    if all && !yielded {
                        bad!("returned Pending although every input has ended");
                    }
                }
                RK::End => {
                    if !all {
                        bad!("returned None while an input is still live");
                    }
                }
                _ => bad!("returned {:?} although no input produced an item in this poll", kind),
            }
        }
        Fam::Zip => {
            let ended = w.combs[k as usize].answers.iter().any(|a| a.1 == Ans::End);
            if ended {
                if kind != RK::End {
                    bad!("an input ended in this poll but the poll returned {:?}", kind);
                }
                return;
            }
            let all = w.combs[k as usize].children.iter().all(|&c| w.children[c as usize].buffered != 0);
            match kind {
                RK::Pending => {
                    if all {
                        bad!("returned Pending although an item of every input is buffered");
                    }
                }
                RK::Item => {
                    if !all {
                        bad!("yielded a row before every input delivered its item");
                    }
                    let n = w.combs[k as usize].children.len();
                    if !r.is_list || r.elems.len() != n {
                        bad!("row has {} entries for {} inputs", r.elems.len(), n);
                    }
                    for i in 0..n {
                        let ch = w.combs[k as usize].children[i];
                        if w.children[ch as usize].buffered != r.elems[i] {
                            bad!("row position {} does not hold the item taken from input {}", i, i);
                        }
                    }
                    for i in 0..n {
                        let ch = w.combs[k as usize].children[i];
                        w.children[ch as usize].buffered = 0;
                    }
                }
                _ => bad!("returned {:?} although no input ended in this poll", kind),
            }
        }
        Fam::Chain => {
            let last = w.combs[k as usize].answers.last().copied();
            let all = w.combs[k as usize].children.iter().all(|&c| w.children[c as usize].finished);
            match last {
                Some(a) if a.1 == Ans::Item => {
                    if kind != RK::Item || r.top != a.2 {
                        bad!("current input produced an item but the poll returned {:?} / another item", kind);
                    }
                }
                Some(a) if a.1 == Ans::Pending => {
                    if kind != RK::Pending {
                        bad!("current input is pending but the poll returned {:?}", kind);
                    }
                }
                _ if yielded => {}
                _ => {
                    if all {
                        if kind != RK::End {
                            bad!("every input has ended but the poll returned {:?}", kind);
                        }
                    } else {
                        bad!("returned {:?} without polling the current input to a decision", kind);
                    }
                }
            }
        }
        Fam::FutGroup => {
            let first = w.combs[k as usize].answers.iter().find(|a| a.1 == Ans::Ready).copied();
            if let Some(f) = first {
                if kind != RK::Item {
                    bad!("member {} resolved in this poll but the poll returned {:?}", f.0, kind);
                }
                if r.top != f.2 {
                    bad!("yielded something other than the output of the member that resolved in this poll");
                }
                let slot = w.children[f.0 as usize].slot as u32;
                if r.key != NONE && r.key != slot && w.children[f.0 as usize].role_tag != TAG_UNKNOWN_SLOT {
                    bad!("output of the member with key {} was paired with key {}", slot, r.key);
                }
                w.detach(f.0);
                return;
            }
            let empty = w.combs[k as usize].children.is_empty();
            match kind {
                RK::Pending => {
                    if empty && !yielded {
                        bad!("returned Pending although the group is empty");
                    }
                }
                RK::End => {
                    if !empty {
                        bad!("returned None although the group still has members");
                    }
                }
                _ => bad!("yielded an item although no member resolved in this poll"),
            }
        }
        Fam::StrGroup => {
            let before = w.combs[k as usize].children.len();
            let ends: Vec<u32> = w.combs[k as usize].answers.iter().filter(|a| a.1 == Ans::End).map(|a| a.0).collect();
            for e in &ends {
                w.detach(*e);
            }
            let first = w.combs[k as usize].answers.iter().find(|a| a.1 == Ans::Item).copied();
            if let Some(f) = first {
                if kind != RK::Item {
                    bad!("member {} produced an item in this poll but the poll returned {:?}", f.0, kind);
                }
                if r.top != f.2 {
                    bad!("yielded something other than the first item produced in this poll");
                }
                let slot = w.children[f.0 as usize].slot as u32;
                if r.key != NONE && r.key != slot && w.children[f.0 as usize].role_tag != TAG_UNKNOWN_SLOT {
                    bad!("item of the member with key {} was tagged with key {}", slot, r.key);
                }
                return;
            }
            let empty_now = w.combs[k as usize].children.is_empty();
            match kind {
                RK::Pending => {
                    if empty_now && !yielded {
                        bad!("returned Pending although no members remain");
                    }
                }
                RK::End => {
                    if !empty_now {
                        bad!("returned None although {} member(s) remain (had {})", w.combs[k as usize].children.len(), before);
                    }
                }
                _ => bad!("yielded an item although no member produced one in this poll"),
            }
        }
        Fam::WaitFut | Fam::WaitStr => {
            // children[0] = deadline, children[1] = inner
            let (d, i) = (w.combs[k as usize].children[0], w.combs[k as usize].children[1]);
            let dfin = w.children[d as usize].finished;
            let inner_ans = w.combs[k as usize].answers.iter().filter(|a| a.0 == i).last().copied();
            if !dfin {
                if kind != RK::Pending {
                    bad!("returned {:?} before the deadline resolved", kind);
                }
                if w.children[i as usize].polls != 0 {
                    bad!("inner polled before the deadline resolved");
                }
                return;
            }
            match inner_ans {
                None => bad!("deadline has resolved but the inner was not polled in this poll"),
                Some(a) => {
                    let ok = match a.1 {
                        Ans::Pending => kind == RK::Pending,
                        Ans::Ready => kind == RK::Plain && r.top == a.2,
                        Ans::Item => kind == RK::Item && r.top == a.2,
                        Ans::End => kind == RK::End,
                        _ => true,
                    };
                    if !ok {
                        bad!("after the deadline the wrapper returned {:?} while the inner answered {:?}", kind, a.1);
                    }
                }
            }
        }
        Fam::Co | Fam::Opaque => {}
    }
}
