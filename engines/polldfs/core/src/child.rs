//! Tracked values, scripted leaves, nesting adapters and harness wakers.

use crate::family::{family_check, RetSig, RK};
use crate::world::*;
use futures_core::Stream;
use std::future::Future;
use std::pin::Pin;
use std::sync::Arc;
use std::task::{Context, Poll, Wake, Waker};

const MAGIC: u32 = 0x5AFE_C0DE;

/// A value produced by a scripted child. Owns no heap memory, so a double drop or a read of an
/// uninitialised slot shows up as a counter / canary mismatch instead of allocator corruption.
#[derive(Debug)]
pub struct Val {
    pub id: u32,
    pub canary: u32,
}

impl Val {
    pub fn valid(&self) -> bool {
        self.canary == self.id ^ MAGIC
    }
}

impl Drop for Val {
    fn drop(&mut self) {
        let (id, canary) = (self.id, self.canary);
        with_drops(|d| {
            d.clock += 1;
            if canary != id ^ MAGIC || (id as usize) >= d.vals.len() {
                if d.bad.len() < 4 {
                    d.bad.push(format!("drop of a value that no child produced (id {:#x}, canary {:#x})", id, canary));
                }
                return;
            }
            d.vals[id as usize] = d.vals[id as usize].saturating_add(1);
            if d.vals[id as usize] == 2 && d.bad.len() < 4 {
                let o = d.val_origin[id as usize];
                d.bad.push(format!("value {} (child {}, seq {}) dropped twice", id, o.0, o.1));
            }
        });
    }
}

pub fn new_val(child: u32, seq: u16) -> Val {
    with_drops(|d| {
        let id = d.vals.len() as u32;
        d.vals.push(0);
        d.val_returned.push(false);
        d.val_origin.push((child, seq));
        Val { id, canary: id ^ MAGIC }
    })
}

/// Normalised output tree: what a combinator returns, whatever its container type.
#[derive(Debug)]
pub enum Out {
    V(Val),
    L(Vec<Out>),
    /// a plain number (enumerate index, adapter tag); owns nothing
    N(u32),
}

impl Out {
    pub fn sig(&self) -> u64 {
        match self {
            Out::V(v) => mix(0x51ed, ((v.id as u64) << 32) | v.canary as u64) | 1,
            Out::N(n) => mix(0x4e4e, *n as u64) | 1,
            Out::L(l) => {
                let mut h = mix(0x7157, l.len() as u64);
                for o in l {
                    h = mix(h, o.sig());
                }
                h | 1
            }
        }
    }
    pub fn elem_sigs(&self) -> Vec<u64> {
        match self {
            Out::V(_) | Out::N(_) => vec![self.sig()],
            Out::L(l) => l.iter().map(|o| o.sig()).collect(),
        }
    }
    /// hash that does not depend on value ids (which depend on the schedule): origin + sequence number
    pub fn origin_hash(&self) -> u64 {
        match self {
            Out::V(v) => with_drops(|d| match d.val_origin.get(v.id as usize) {
                Some(o) => mix(0x0916, ((o.0 as u64) << 16) | o.1 as u64),
                None => 0xdead,
            }),
            Out::N(n) => mix(0x4e4e, *n as u64),
            Out::L(l) => {
                let mut h = mix(0x7157, l.len() as u64);
                for o in l {
                    h = mix(h, o.origin_hash());
                }
                h
            }
        }
    }
    /// C02: every returned value must be one a child produced, still live, not returned before.
    pub fn check_returned(&self, bad: &mut Vec<String>) {
        match self {
            Out::V(v) => with_drops(|d| {
                if !v.valid() || (v.id as usize) >= d.vals.len() {
                    bad.push(format!("returned a value no child produced (id {:#x}, canary {:#x})", v.id, v.canary));
                } else if d.vals[v.id as usize] != 0 {
                    bad.push(format!("returned value {} which was already dropped", v.id));
                } else if d.val_returned[v.id as usize] {
                    bad.push(format!("value {} returned twice", v.id));
                } else {
                    d.val_returned[v.id as usize] = true;
                }
            }),
            Out::N(_) => {}
            Out::L(l) => {
                for o in l {
                    o.check_returned(bad);
                }
            }
        }
    }
}

#[derive(Debug)]
pub enum Ret {
    Plain(Out),
    Ok(Out),
    Err(Out),
}

impl Ret {
    pub fn out(&self) -> &Out {
        match self {
            Ret::Plain(o) | Ret::Ok(o) | Ret::Err(o) => o,
        }
    }
    pub fn into_out(self) -> Out {
        match self {
            Ret::Plain(o) | Ret::Ok(o) | Ret::Err(o) => o,
        }
    }
    pub fn into_result(self) -> Result<Out, Out> {
        match self {
            Ret::Plain(o) | Ret::Ok(o) => Ok(o),
            Ret::Err(o) => Err(o),
        }
    }
    pub fn is_err(&self) -> bool {
        matches!(self, Ret::Err(_))
    }
    pub fn retsig(&self) -> RetSig {
        let kind = match self {
            Ret::Plain(_) => RK::Plain,
            Ret::Ok(_) => RK::Ok,
            Ret::Err(_) => RK::Err,
        };
        let o = self.out();
        RetSig { kind, top: o.sig(), elems: o.elem_sigs(), is_list: matches!(o, Out::L(_)), key: NONE }
    }
}

// ---------------------------------------------------------------------------------------
// harness wakers
// ---------------------------------------------------------------------------------------

/// The waker presented to combinator `comb` in its poll number `gen`. For the top-level subject
/// `fwd` is None (it *is* the task); for a nested combinator it forwards to the waker the outer
/// combinator handed to it.
struct PW {
    comb: u16,
    gen: u32,
    fwd: Option<Waker>,
}

impl Wake for PW {
    fn wake(self: Arc<Self>) {
        self.wake_by_ref()
    }
    fn wake_by_ref(self: &Arc<Self>) {
        with(|w| w.parent_woken(self.comb, self.gen));
        if let Some(f) = &self.fwd {
            f.wake_by_ref();
        }
    }
}

pub fn make_waker(comb: u16, gen: u32, fwd: Option<Waker>) -> Waker {
    Arc::new(PW { comb, gen, fwd }).into()
}

/// Invoke waker record `wid` (harness side).
pub fn fire(wid: u32, wk: &Waker, inside_poll: bool) {
    with(|w| {
        w.before_fire(wid, inside_poll);
        w.in_fire = wid;
    });
    wk.wake_by_ref();
    with(|w| w.in_fire = NONE);
}

// ---------------------------------------------------------------------------------------
// scripted leaves
// ---------------------------------------------------------------------------------------

pub struct Injected;
/// thrown out of a scripted child when one execution has polled children far more often than any
/// bounded script allows: the combinator spins inside its own poll
pub struct HorizonExceeded;

pub enum LeafRes {
    Pending,
    Ready(Out, bool),
    Item(Out),
    End,
}

pub fn leaf_poll(id: u32, waker: &Waker) -> LeafRes {
    let runaway = with(|w| {
        w.child_poll_begin(id, waker);
        w.total_child_polls > w.child_poll_cap * 2
    });
    if runaway {
        with(|w| w.child_answer(id, Ans::Panicked, 0, false));
        std::panic::panic_any(HorizonExceeded);
    }
    let d = with(|w| w.leaf_decide(id));
    if let Some((wid, wk)) = d.pre_wake {
        fire(wid, &wk, true);
    }
    match d.ans {
        LeafAns::Panic => {
            with(|w| w.child_answer(id, Ans::Panicked, 0, false));
            std::panic::panic_any(Injected)
        }
        LeafAns::Pending => {
            with(|w| w.child_answer(id, Ans::Pending, 0, false));
            LeafRes::Pending
        }
        LeafAns::PendingSelf => {
            let wid = with(|w| w.children[id as usize].cur);
            fire(wid, waker, true);
            with(|w| w.child_answer(id, Ans::Pending, 0, false));
            LeafRes::Pending
        }
        LeafAns::ReadyOk | LeafAns::ReadyErr => {
            let is_err = d.ans == LeafAns::ReadyErr;
            let out = Out::V(new_val(id, 0));
            let sig = out.sig();
            with(|w| w.child_answer(id, Ans::Ready, sig, is_err));
            LeafRes::Ready(out, is_err)
        }
        LeafAns::Item => {
            let seq = with(|w| w.children[id as usize].seq);
            let out = Out::V(new_val(id, seq));
            let sig = out.sig();
            with(|w| w.child_answer(id, Ans::Item, sig, false));
            LeafRes::Item(out)
        }
        LeafAns::End => {
            with(|w| w.child_answer(id, Ans::End, 0, false));
            LeafRes::End
        }
    }
}

pub fn child_dropped(id: u32) {
    with_drops(|d| {
        d.clock += 1;
        let i = id as usize;
        if i >= d.children.len() {
            d.bad.push(format!("drop of unknown child {}", id));
            return;
        }
        d.children[i] = d.children[i].saturating_add(1);
        if d.children[i] == 2 && d.bad.len() < 4 {
            d.bad.push(format!("child {} dropped twice", id));
        }
    });
}

macro_rules! leaf_type {
    ($name:ident) => {
        #[derive(Debug)]
        pub struct $name {
            pub id: u32,
        }
        impl Drop for $name {
            fn drop(&mut self) {
                drop_wake(self.id);
                child_dropped(self.id);
            }
        }
    };
}

/// Alphabet (dw budget): the destructor of a leaf that is dropped inside a combinator's poll wakes a pending sibling.
fn drop_wake(id: u32) {
    if std::thread::panicking() {
        return;
    }
    let pick = WORLD.with(|w| match w.try_borrow_mut() {
        Ok(mut w) => w.dropwake_decide(id),
        Err(_) => None,
    });
    if let Some((wid, wk)) = pick {
        fire(wid, &wk, true);
    }
}
leaf_type!(Leaf);
leaf_type!(TryLeaf);
leaf_type!(SLeaf);

impl Future for Leaf {
    type Output = Out;
    fn poll(self: Pin<&mut Self>, cx: &mut Context<'_>) -> Poll<Out> {
        match leaf_poll(self.id, cx.waker()) {
            LeafRes::Ready(o, _) => Poll::Ready(o),
            _ => Poll::Pending,
        }
    }
}

impl Future for TryLeaf {
    type Output = Result<Out, Out>;
    fn poll(self: Pin<&mut Self>, cx: &mut Context<'_>) -> Poll<Result<Out, Out>> {
        match leaf_poll(self.id, cx.waker()) {
            LeafRes::Ready(o, false) => Poll::Ready(Ok(o)),
            LeafRes::Ready(o, true) => Poll::Ready(Err(o)),
            _ => Poll::Pending,
        }
    }
}

impl Stream for SLeaf {
    type Item = Out;
    fn poll_next(self: Pin<&mut Self>, cx: &mut Context<'_>) -> Poll<Option<Out>> {
        match leaf_poll(self.id, cx.waker()) {
            LeafRes::Item(o) => Poll::Ready(Some(o)),
            LeafRes::End => Poll::Ready(None),
            _ => Poll::Pending,
        }
    }
    /// An honest hint: never more items than the upper bound, never fewer than the lower one. An upper bound of
    /// 0 does NOT mean the stream has ended - it may still answer Pending before it answers None.
    fn size_hint(&self) -> (usize, Option<usize>) {
        with(|w| {
            let r = &w.children[self.id as usize];
            if !w.cfg.hints || r.spec.always {
                return (0, None);
            }
            if r.finished {
                return (0, Some(0));
            }
            let left = r.items_left as usize;
            let capped = (r.never_after.saturating_sub(r.seq)) as usize;
            let upper = if r.spec.never { 0 } else { left.min(capped) };
            let lower = if w.cfg.early_end || r.spec.never || capped < left { 0 } else { left };
            (lower, Some(upper))
        })
    }
}

// ---------------------------------------------------------------------------------------
// nesting adapters: an inner combinator as a child of an outer one
// ---------------------------------------------------------------------------------------

pub type BoxFut = Pin<Box<dyn Future<Output = Ret>>>;
pub type BoxStr = Pin<Box<dyn Stream<Item = Out>>>;

pub struct Nest {
    pub child: u32,
    pub comb: u16,
    pub inner: Option<BoxFut>,
}

impl Drop for Nest {
    fn drop(&mut self) {
        let comb = self.comb;
        // drop the inner first so that "children dropped before drop returns" is observable per level
        self.inner = None;
        WORLD.with(|w| {
            if let Ok(mut w) = w.try_borrow_mut() {
                if let Some(c) = w.combs.get_mut(comb as usize) {
                    c.alive = false;
                }
            }
        });
        child_dropped(self.child);
    }
}

fn nest_poll_fut(n: &mut Nest, cx: &mut Context<'_>) -> Poll<Ret> {
    let (child, comb) = (n.child, n.comb);
    let gen = with(|w| {
        w.child_poll_begin(child, cx.waker());
        w.comb_poll_begin(comb);
        w.combs[comb as usize].gen
    });
    let wk = make_waker(comb, gen, Some(cx.waker().clone()));
    let mut cx2 = Context::from_waker(&wk);
    let r = n.inner.as_mut().expect("nest polled after drop").as_mut().poll(&mut cx2);
    match r {
        Poll::Pending => {
            with(|w| {
                family_check(w, comb, &RetSig::pending());
                w.comb_poll_end(comb, Last::Pending);
                w.child_answer(child, Ans::Pending, 0, false);
            });
            Poll::Pending
        }
        Poll::Ready(ret) => {
            let rs = ret.retsig();
            let is_err = ret.is_err();
            with(|w| {
                family_check(w, comb, &rs);
                w.comb_poll_end(comb, Last::Final);
                w.child_answer(child, Ans::Ready, rs.top, is_err);
            });
            Poll::Ready(ret)
        }
    }
}

pub struct NestFut(pub Nest);
pub struct NestTry(pub Nest);

impl Future for NestFut {
    type Output = Out;
    fn poll(self: Pin<&mut Self>, cx: &mut Context<'_>) -> Poll<Out> {
        nest_poll_fut(&mut self.get_mut().0, cx).map(Ret::into_out)
    }
}

impl Future for NestTry {
    type Output = Result<Out, Out>;
    fn poll(self: Pin<&mut Self>, cx: &mut Context<'_>) -> Poll<Result<Out, Out>> {
        nest_poll_fut(&mut self.get_mut().0, cx).map(Ret::into_result)
    }
}

pub struct NestStr {
    pub child: u32,
    pub comb: u16,
    pub inner: Option<BoxStr>,
}

impl Drop for NestStr {
    fn drop(&mut self) {
        let comb = self.comb;
        self.inner = None;
        WORLD.with(|w| {
            if let Ok(mut w) = w.try_borrow_mut() {
                if let Some(c) = w.combs.get_mut(comb as usize) {
                    c.alive = false;
                }
            }
        });
        child_dropped(self.child);
    }
}

impl Stream for NestStr {
    type Item = Out;
    fn poll_next(self: Pin<&mut Self>, cx: &mut Context<'_>) -> Poll<Option<Out>> {
        let n = self.get_mut();
        let (child, comb) = (n.child, n.comb);
        let gen = with(|w| {
            w.child_poll_begin(child, cx.waker());
            w.comb_poll_begin(comb);
            w.combs[comb as usize].gen
        });
        let wk = make_waker(comb, gen, Some(cx.waker().clone()));
        let mut cx2 = Context::from_waker(&wk);
        let r = n.inner.as_mut().expect("nest polled after drop").as_mut().poll_next(&mut cx2);
        match r {
            Poll::Pending => {
                with(|w| {
                    family_check(w, comb, &RetSig::pending());
                    w.comb_poll_end(comb, Last::Pending);
                    w.child_answer(child, Ans::Pending, 0, false);
                });
                Poll::Pending
            }
            Poll::Ready(Some(o)) => {
                let rs = RetSig { kind: RK::Item, top: o.sig(), elems: o.elem_sigs(), is_list: matches!(o, Out::L(_)), key: NONE };
                with(|w| {
                    family_check(w, comb, &rs);
                    w.combs[comb as usize].items_out += 1;
                    w.comb_poll_end(comb, Last::Item);
                    w.child_answer(child, Ans::Item, rs.top, false);
                });
                Poll::Ready(Some(o))
            }
            Poll::Ready(None) => {
                with(|w| {
                    family_check(w, comb, &RetSig::end());
                    w.comb_poll_end(comb, Last::Final);
                    w.child_answer(child, Ans::End, 0, false);
                });
                Poll::Ready(None)
            }
        }
    }
}

// ---------------------------------------------------------------------------------------
// child enums handed to the combinators under test
// ---------------------------------------------------------------------------------------

pub enum Node {
    Leaf(Leaf),
    Inner(NestFut),
}
pub enum TryNode {
    Leaf(TryLeaf),
    Inner(NestTry),
}
pub enum SNode {
    Leaf(SLeaf),
    Inner(NestStr),
}

impl std::fmt::Debug for Node {
    fn fmt(&self, f: &mut std::fmt::Formatter<'_>) -> std::fmt::Result {
        f.write_str("Node")
    }
}
impl std::fmt::Debug for TryNode {
    fn fmt(&self, f: &mut std::fmt::Formatter<'_>) -> std::fmt::Result {
        f.write_str("TryNode")
    }
}
impl std::fmt::Debug for SNode {
    fn fmt(&self, f: &mut std::fmt::Formatter<'_>) -> std::fmt::Result {
        f.write_str("SNode")
    }
}

impl Future for Node {
    type Output = Out;
    fn poll(self: Pin<&mut Self>, cx: &mut Context<'_>) -> Poll<Out> {
        match self.get_mut() {
            Node::Leaf(l) => Pin::new(l).poll(cx),
            Node::Inner(n) => Pin::new(n).poll(cx),
        }
    }
}
impl Future for TryNode {
    type Output = Result<Out, Out>;
    fn poll(self: Pin<&mut Self>, cx: &mut Context<'_>) -> Poll<Result<Out, Out>> {
        match self.get_mut() {
            TryNode::Leaf(l) => Pin::new(l).poll(cx),
            TryNode::Inner(n) => Pin::new(n).poll(cx),
        }
    }
}
impl Stream for SNode {
    type Item = Out;
    fn poll_next(self: Pin<&mut Self>, cx: &mut Context<'_>) -> Poll<Option<Out>> {
        match self.get_mut() {
            SNode::Leaf(l) => Pin::new(l).poll_next(cx),
            SNode::Inner(n) => Pin::new(n).poll_next(cx),
        }
    }
    fn size_hint(&self) -> (usize, Option<usize>) {
        match self {
            SNode::Leaf(l) => l.size_hint(),
            SNode::Inner(_) => (0, None),
        }
    }
}

// ---------------------------------------------------------------------------------------
// output normalisation wrappers
// ---------------------------------------------------------------------------------------

pub struct MapFut<F, M> {
    f: F,
    m: M,
}
impl<F, M> MapFut<F, M> {
    pub fn new(f: F, m: M) -> Self {
        MapFut { f, m }
    }
}
impl<F: Future, M: Fn(F::Output) -> Ret> Future for MapFut<F, M> {
    type Output = Ret;
    fn poll(self: Pin<&mut Self>, cx: &mut Context<'_>) -> Poll<Ret> {
        // SAFETY: `f` is structurally pinned (never moved out of `self`), `m` is only read.
        let this = unsafe { self.get_unchecked_mut() };
        let f = unsafe { Pin::new_unchecked(&mut this.f) };
        match f.poll(cx) {
            Poll::Ready(o) => Poll::Ready((this.m)(o)),
            Poll::Pending => Poll::Pending,
        }
    }
}

pub struct MapStr<S, M> {
    s: S,
    m: M,
}
impl<S, M> MapStr<S, M> {
    pub fn new(s: S, m: M) -> Self {
        MapStr { s, m }
    }
}
impl<S: Stream, M: Fn(S::Item) -> Out> Stream for MapStr<S, M> {
    type Item = Out;
    fn poll_next(self: Pin<&mut Self>, cx: &mut Context<'_>) -> Poll<Option<Out>> {
        // SAFETY: as above.
        let this = unsafe { self.get_unchecked_mut() };
        let s = unsafe { Pin::new_unchecked(&mut this.s) };
        match s.poll_next(cx) {
            Poll::Ready(Some(o)) => Poll::Ready(Some((this.m)(o))),
            Poll::Ready(None) => Poll::Ready(None),
            Poll::Pending => Poll::Pending,
        }
    }
}

/// tuple / array / Vec of `Out` -> Vec<Out>
pub trait Flat {
    fn flat(self) -> Vec<Out>;
}
impl Flat for Vec<Out> {
    fn flat(self) -> Vec<Out> {
        self
    }
}
impl<const N: usize> Flat for [Out; N] {
    fn flat(self) -> Vec<Out> {
        self.into_iter().collect()
    }
}
impl Flat for () {
    fn flat(self) -> Vec<Out> {
        Vec::new()
    }
}
macro_rules! flat_tuple {
    ($($T:ident)+) => {
        #[allow(non_snake_case)]
        impl Flat for ($(flat_tuple!(@o $T),)+) {
            fn flat(self) -> Vec<Out> {
                let ($($T,)+) = self;
                vec![$($T),+]
            }
        }
    };
    (@o $T:ident) => { Out };
}
flat_tuple!(A);
flat_tuple!(A B);
flat_tuple!(A B C);
flat_tuple!(A B C D);
flat_tuple!(A B C D E);
flat_tuple!(A B C D E F);
flat_tuple!(A B C D E F G);
flat_tuple!(A B C D E F G H);
flat_tuple!(A B C D E F G H I);
flat_tuple!(A B C D E F G H I J);
flat_tuple!(A B C D E F G H I J K);
flat_tuple!(A B C D E F G H I J K L);
