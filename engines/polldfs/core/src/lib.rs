//! polldfs core: exhaustive poll / wake-schedule exploration harness (see /verif/DESIGN.md §3).
pub mod child;
pub mod dfs;
pub mod exec;
pub mod family;
pub mod world;

pub use child::*;
pub use dfs::*;
pub use exec::*;
pub use family::*;
pub use world::*;
