//! The environment / executor loop: drives one subject (a combinator built from scripted
//! children) through one execution, every nondeterministic decision taken by the chooser.

use crate::child::*;
use crate::family::{family_check, RetSig, RK};
use crate::world::*;
use std::panic::{catch_unwind, AssertUnwindSafe};
use std::task::Context;

pub enum Polled {
    Pending,
    Done(Ret),
    Item(Out, u32),
    End,
}

pub trait Subject {
    fn poll(&mut self, cx: &mut Context<'_>) -> Polled;
    /// extra operations (group insert / remove / ..) enabled right now
    fn ops(&mut self, _out: &mut Vec<u16>) {}
    fn do_op(&mut self, _op: u16) {}
    /// may be polled again after it returned None (groups)
    fn reusable(&self) -> bool {
        false
    }
    /// checks after the subject was dropped / finished (family specific, e.g. co-stream models)
    fn finish(&mut self) {}
    /// called after the bookkeeping of every poll and every operation (set-view checks of groups)
    fn after_step(&mut self) {}
    /// family-specific verdict on "Pending at quiescence" (None = use the generic one)
    fn quiescent_verdict(&self) -> Option<Result<(), String>> {
        None
    }
}

#[derive(Clone, Copy, PartialEq, Eq, Debug)]
enum Act {
    Fire(u32),
    Poll,
    Stale(u32),
    Spurious,
    Drop,
    Op(u16),
    End,
}

#[derive(Clone, Copy, PartialEq, Eq, Debug)]
pub enum EndKind {
    Final,
    Quiescent,
    Dropped,
    Panicked,
    Horizon,
}

fn panic_message(p: &Box<dyn std::any::Any + Send>) -> String {
    if let Some(s) = p.downcast_ref::<&str>() {
        s.to_string()
    } else if let Some(s) = p.downcast_ref::<String>() {
        s.clone()
    } else {
        "<non-string panic payload>".to_string()
    }
}

fn blocked_ok(w: &World, child: u32) -> bool {
    let r = &w.children[child as usize];
    if !r.is_inner {
        return r.spec.never || r.seq >= r.never_after;
    }
    // find the inner combinator whose parent_child is this child
    for (k, c) in w.combs.iter().enumerate() {
        if c.parent_child == child {
            return c.last == Last::Pending && comb_pending_ok(w, k as u16).is_ok();
        }
    }
    false
}

/// Is it legitimate for combinator k to sit Pending with no wake-up outstanding?
fn comb_pending_ok(w: &World, k: u16) -> Result<(), String> {
    let c = &w.combs[k as usize];
    if c.fam == Fam::Co {
        // a concurrent-stream operation may legitimately wait only for a child that never completes
        // (directly, or because the consumer is saturated by such children)
        // C14: once a work future has resolved to Err the fallible operations short-circuit; they may not
        // keep waiting for anything (not even for a future that never completes)
        if c.home == 14 {
            if let Some(f) = c.children.iter().copied().find(|&ch| w.children[ch as usize].finished && w.children[ch as usize].is_err) {
                return Err(format!("fallible concurrent-stream operation #{} is still Pending with no wake-up outstanding although work future {} has resolved to Err", k, f));
            }
        }
        let stuck = c.children.iter().any(|&ch| {
            let r = &w.children[ch as usize];
            !r.finished && r.spec.never
        });
        return if stuck { Ok(()) } else { Err(format!("concurrent-stream operation #{} is Pending with no wake-up outstanding although none of its children is blocked", k)) };
    }
    let mut unfinished = 0;
    for &ch in &c.children {
        let r = &w.children[ch as usize];
        if r.finished || r.removed {
            continue;
        }
        unfinished += 1;
        let ok = match c.fam {
            Fam::Zip => r.buffered != 0 || blocked_ok(w, ch),
            _ => blocked_ok(w, ch),
        };
        if !ok {
            return Err(format!(
                "{:?}#{} is Pending with no wake-up outstanding although child at slot {} (last answer {:?}, polls {}) is able to make progress",
                c.fam, k, r.slot, r.last, r.polls
            ));
        }
        if matches!(c.fam, Fam::Chain | Fam::WaitFut | Fam::WaitStr) {
            // sequential: only the first unfinished child matters
            return Ok(());
        }
    }
    if unfinished == 0 {
        return Err(format!("{:?}#{} is Pending with no wake-up outstanding although every child has finished", c.fam, k));
    }
    if c.fam == Fam::Zip {
        // at least one input must be legitimately blocked (not merely buffered)
        let any_blocked = c.children.iter().any(|&ch| {
            let r = &w.children[ch as usize];
            !r.finished && r.buffered == 0 && blocked_ok(w, ch)
        });
        if !any_blocked {
            return Err(format!("Zip#{} is Pending although every live input has its item buffered", k));
        }
    }
    Ok(())
}

/// Run one execution. `world` must have been reset and combinator 0 / its children created.
pub fn run(subj: Box<dyn Subject>) -> EndKind {
    let mut subj = Some(subj);
    let mut fires: Vec<u32> = Vec::new();
    let mut stales: Vec<u32> = Vec::new();
    let mut ops: Vec<u16> = Vec::new();
    let mut menu: Vec<Act> = Vec::new();
    let mut want_poll = true;
    let mut ended = false; // reusable subject returned None
    let end_kind;
    let home = with(|w| w.combs[0].home);

    loop {
        // ---------------------------------------------------------------- choose an action
        ops.clear();
        if with(|w| w.ops_left > 0 && w.dev_ok()) {
            subj.as_mut().unwrap().ops(&mut ops);
        }
        let act = with(|w| {
            w.steps += 1;
            w.note_state();
            if w.total_child_polls > w.child_poll_cap {
                w.violate(1, || "horizon exceeded: more than the cap of child polls in one execution (livelock)".to_string());
                return Act::End;
            }
            menu.clear();
            w.fireable(&mut fires);
            if w.cfg.por && w.last_fired_child != NONE {
                let lf = w.last_fired_child;
                let any_after = fires.iter().any(|&f| w.wakers[f as usize].child > lf);
                let poll_enabled = want_poll || w.combs[0].woken;
                if any_after || poll_enabled {
                    fires.retain(|&f| w.wakers[f as usize].child > lf);
                }
            }
            for &f in &fires {
                menu.push(Act::Fire(f));
            }
            let poll_enabled = (want_poll || w.combs[0].woken) && !(ended && !want_poll);
            if poll_enabled {
                menu.push(Act::Poll);
            }
            if menu.is_empty() {
                menu.push(Act::End);
            }
            if w.dev_ok() {
                if w.stale_left > 0 {
                    w.stale_candidates(&mut stales);
                    for &s in &stales {
                        menu.push(Act::Stale(s));
                    }
                }
                if w.spurious_left > 0 && !poll_enabled {
                    menu.push(Act::Spurious);
                }
                if w.drops_left > 0 {
                    menu.push(Act::Drop);
                }
                for &o in &ops {
                    menu.push(Act::Op(o));
                }
            }
            let c = w.choose(menu.len());
            menu[c]
        });

        match act {
            Act::End => {
                end_kind = EndKind::Quiescent;
                break;
            }
            Act::Drop => {
                with(|w| w.drops_left -= 1);
                end_kind = EndKind::Dropped;
                break;
            }
            Act::Fire(wid) | Act::Stale(wid) => {
                let wk = with(|w| {
                    if let Act::Stale(_) = act {
                        w.stale_left -= 1;
                    } else {
                        w.last_fired_child = w.wakers[wid as usize].child;
                    }
                    w.wakers[wid as usize].waker.clone()
                });
                let r = catch_unwind(AssertUnwindSafe(|| fire(wid, &wk, false)));
                if let Err(p) = r {
                    let m = panic_message(&p);
                    with(|w| {
                        w.in_fire = NONE;
                        w.violate(1, || format!("invoking waker record {} panicked: {}", wid, m));
                    });
                    // a group promises that it stays usable (C11 / C12: refill and reuse): keep going, so that what
                    // the panicking waker left behind (a poisoned lock, a half-updated table) shows in the group's
                    // own operations; every other subject ends here
                    if !subj.as_ref().map(|s| s.reusable()).unwrap_or(false) {
                        end_kind = EndKind::Panicked;
                        break;
                    }
                }
                with(|w| w.check_wake_all());
            }
            Act::Op(o) => {
                with(|w| w.ops_left -= 1);
                let s = subj.as_mut().unwrap();
                with(|w| w.op_depth = 1);
                let r = catch_unwind(AssertUnwindSafe(|| {
                    s.do_op(o);
                    with(|w| w.op_depth = 0);
                    s.after_step();
                }));
                with(|w| w.op_depth = 0);
                if let Err(p) = r {
                    let m = panic_message(&p);
                    with(|w| w.violate(home, || format!("group operation {} panicked: {}", o, m)));
                    end_kind = EndKind::Panicked;
                    break;
                }
                want_poll = true;
                ended = false;
            }
            Act::Poll | Act::Spurious => {
                if act == Act::Spurious {
                    with(|w| {
                        w.spurious_left -= 1;
                        w.ev(Ev::Spurious);
                    });
                }
                let gen = with(|w| {
                    w.comb_poll_begin(0);
                    w.last_fired_child = NONE;
                    w.combs[0].gen
                });
                let wk = make_waker(0, gen, None);
                let mut cx = Context::from_waker(&wk);
                let s = subj.as_mut().unwrap();
                let r = catch_unwind(AssertUnwindSafe(|| s.poll(&mut cx)));
                want_poll = false;
                match r {
                    Err(p) => {
                        if p.is::<HorizonExceeded>() {
                            with(|w| {
                                let cap = w.child_poll_cap * 2;
                                w.violate(1, || format!("more than {} child polls in one execution: the combinator spins inside its own poll (livelock)", cap));
                                w.violate(home, || format!("more than {} child polls in one execution: the combinator spins inside its own poll", cap));
                            });
                        }
                        let injected = p.is::<Injected>() || p.is::<HorizonExceeded>();
                        let m = if injected { String::new() } else { panic_message(&p) };
                        with(|w| {
                            if !injected {
                                let inf = w.in_fire;
                                if inf != NONE {
                                    w.violate(1, || format!("a waker invocation inside poll panicked: {}", m));
                                }
                                w.violate(home, || format!("poll panicked: {}", m));
                                // a completion guard (core::future::Ready, the crate's own adapters) fired: something polled a
                                // future again after it had returned Ready
                                if m.contains("polled after complet") || m.contains("polled to completion") {
                                    w.violate(3, || format!("a future was polled again after it completed (its guard panicked: {})", m));
                                }
                                w.in_fire = NONE;
                            }
                            w.stack.clear();
                            for c in w.combs.iter_mut() {
                                c.in_poll = false;
                            }
                            w.combs[0].last = Last::Panicked;
                            w.ev(Ev::CombRet(0, Last::Panicked));
                        });
                        end_kind = EndKind::Panicked;
                        break;
                    }
                    Ok(Polled::Pending) => {
                        with(|w| {
                            family_check(w, 0, &RetSig::pending());
                            w.comb_poll_end(0, Last::Pending);
                            w.outcome = mix(w.outcome, 1);
                        });
                        subj.as_mut().unwrap().after_step();
                    }
                    Ok(Polled::Done(ret)) => {
                        let rs = ret.retsig();
                        let mut bad = Vec::new();
                        ret.out().check_returned(&mut bad);
                        let oh = ret.out().origin_hash();
                        with(|w| {
                            family_check(w, 0, &rs);
                            w.comb_poll_end(0, Last::Final);
                            w.outcome = mix(mix(w.outcome, 2 + rs.kind as u64), oh);
                            for b in bad {
                                w.violate(2, || b);
                            }
                        });
                        drop(ret);
                        end_kind = EndKind::Final;
                        break;
                    }
                    Ok(Polled::Item(o, key)) => {
                        let rs = RetSig { kind: RK::Item, top: o.sig(), elems: o.elem_sigs(), is_list: matches!(o, Out::L(_)), key };
                        let mut bad = Vec::new();
                        o.check_returned(&mut bad);
                        let oh = o.origin_hash();
                        let horizon = with(|w| {
                            family_check(w, 0, &rs);
                            w.combs[0].items_out += 1;
                            w.comb_poll_end(0, Last::Item);
                            w.outcome = mix(mix(w.outcome, 7), oh);
                            for b in bad {
                                w.violate(2, || b);
                            }
                            w.cfg.max_items != 0 && w.combs[0].items_out >= w.cfg.max_items as u32
                        });
                        drop(o);
                        subj.as_mut().unwrap().after_step();
                        want_poll = true;
                        if horizon {
                            end_kind = EndKind::Horizon;
                            break;
                        }
                    }
                    Ok(Polled::End) => {
                        let reusable = subj.as_ref().unwrap().reusable();
                        with(|w| {
                            family_check(w, 0, &RetSig::end());
                            w.comb_poll_end(0, Last::Final);
                            w.outcome = mix(w.outcome, 9);
                        });
                        subj.as_mut().unwrap().after_step();
                        if reusable {
                            ended = true;
                        } else {
                            end_kind = EndKind::Final;
                            break;
                        }
                    }
                }
            }
        }
    }

    // -------------------------------------------------------------------- probe after the final result
    // C03: "once a combinator has produced its final result it has stopped polling its children". A caller
    // that polls again violates the Future contract, so the combinator may panic or answer anything - but a
    // child must not be polled. (Values it might hand out are dropped here; the ownership monitor still runs.)
    if end_kind == EndKind::Final && with(|w| w.cfg.probe) && !subj.as_ref().unwrap().reusable() {
        let gen = with(|w| {
            w.stack.push(0);
            w.ev(Ev::Note(0xF1FA));
            w.combs[0].gen + 1
        });
        let wk = make_waker(0, gen, None);
        let mut cx = Context::from_waker(&wk);
        let s = subj.as_mut().unwrap();
        let r = catch_unwind(AssertUnwindSafe(|| s.poll(&mut cx)));
        with(|w| {
            w.stack.clear();
            w.in_fire = NONE;
        });
        drop(r);
    }

    // -------------------------------------------------------------------- quiescence
    if end_kind == EndKind::Quiescent {
        let special = if with(|w| w.combs[0].last == Last::Pending) { subj.as_ref().unwrap().quiescent_verdict() } else { None };
        with(|w| {
            if w.combs[0].last == Last::Pending {
                let verdict = match special {
                    Some(v) => v,
                    None => comb_pending_ok(w, 0),
                };
                if let Err(m) = verdict {
                    let nevers = w.children.iter().any(|r| r.spec.never || r.never_after != u16::MAX);
                    w.violate(1, || m.clone());
                    w.violate(home, || m.clone());
                    if nevers {
                        w.violate(20, || m);
                    }
                }
            }
        });
    }

    // -------------------------------------------------------------------- drop + sweep
    with(|w| w.ev(Ev::DropSubject));
    let mut s = subj.take().unwrap();
    with(|w| w.op_depth = 1);
    let r = catch_unwind(AssertUnwindSafe(|| {
        s.finish();
        drop(s);
    }));
    with(|w| w.op_depth = 0);
    if let Err(p) = r {
        let m = panic_message(&p);
        with(|w| w.violate(2, || format!("dropping the subject panicked: {}", m)));
    }
    // C02: no child outlives the combinator
    with(|w| {
        let n = w.children.len();
        let leaked: Vec<usize> = with_drops(|d| (0..n).filter(|&i| d.children[i] == 0).collect());
        if !leaked.is_empty() {
            // C06: the losers of a finished race are dropped together with the race future
            if w.combs[0].fam == Fam::Race && w.combs[0].last == Last::Final {
                w.violate(6, || format!("children {:?} of the finished race were still alive after the race future had been dropped", leaked));
            }
            w.violate(2, || format!("children {:?} were not dropped by the time the drop of the combinator returned", leaked));
            if w.combs[0].fam == Fam::Co {
                let home = w.combs[0].home;
                w.violate(home, || format!("work futures / source {:?} were still alive after the operation's future had been dropped", leaked));
            }
        }
        w.combs[0].alive = false;
    });
    // every waker ever handed out can still be invoked without panicking / blocking
    let nw = with(|w| w.wakers.len());
    for wid in 0..nw as u32 {
        let wk = with(|w| w.wakers[wid as usize].waker.clone());
        let polls_before = with(|w| w.total_child_polls);
        let r = catch_unwind(AssertUnwindSafe(|| fire(wid, &wk, false)));
        if let Err(p) = r {
            let m = panic_message(&p);
            with(|w| {
                w.in_fire = NONE;
                w.violate(1, || format!("invoking waker record {} after the combinator was dropped panicked: {}", wid, m));
            });
            break;
        }
        with(|w| {
            if w.total_child_polls != polls_before {
                w.violate(3, || "a child was polled by a waker invocation after the combinator was dropped".to_string());
            }
        });
    }
    // C02: exactly-once accounting of values
    with(|w| {
        // release the waker clones (they may keep crate-internal state alive, never children)
        w.wakers.clear();
        with_drops(|d| {
            for b in d.bad.drain(..) {
                if w.violations.iter().filter(|v| v.prop == 2).count() < 3 {
                    w.violations.push(Violation { prop: 2, msg: b });
                }
            }
            for (i, &c) in d.vals.iter().enumerate() {
                if c != 1 {
                    let o = d.val_origin[i];
                    // family clauses about values that are dropped rather than returned
                    let k0 = &w.combs[0];
                    let fam_prop = match k0.fam {
                        Fam::TryJoin if k0.final_err && !d.val_returned[i] => 5,
                        Fam::Zip if k0.last == Last::Final && !d.val_returned[i] => 9,
                        _ => 0,
                    };
                    if fam_prop != 0 && w.violations.iter().filter(|v| v.prop == fam_prop).count() < 2 {
                        w.violations.push(Violation {
                            prop: fam_prop,
                            msg: format!("value {} (produced by child {}, seq {}) was not returned and was dropped {} times instead of exactly once", i, o.0, o.1, c),
                        });
                    }
                    if w.violations.iter().filter(|v| v.prop == 2).count() < 3 {
                        w.violations.push(Violation {
                            prop: 2,
                            msg: format!("value {} (child {}, seq {}) was dropped {} times by the end of the execution (returned to caller: {})", i, o.0, o.1, c, d.val_returned[i]),
                        });
                    }
                    break;
                }
            }
        });
        w.outcome = mix(w.outcome, end_kind as u64);
    });
    end_kind
}

pub fn reset_drops() {
    with_drops(|d| {
        d.vals.clear();
        d.val_returned.clear();
        d.val_origin.clear();
        d.children.clear();
        d.bad.clear();
        d.clock = 0;
    });
}
