//! Per-execution harness state. One `World` per worker thread (thread-local), reset
//! before every execution. Everything nondeterministic goes through `World::choose`.
//!
//! Borrow discipline: the `WORLD` RefCell is never borrowed while crate-under-test code,
//! a waker invocation or a destructor of a tracked value runs. Drop accounting lives in a
//! separate cell (`DROPS`) so that destructors can always record themselves.

use std::cell::RefCell;
use std::task::Waker;

pub const NONE: u32 = u32::MAX;
pub const NPROP: usize = 21;
/// `ChildRec::role_tag`: the key (slot) of this group member is not known to the harness
pub const TAG_UNKNOWN_SLOT: u8 = 1;

// ---------------------------------------------------------------------------------------
// configuration of one work item's executions
// ---------------------------------------------------------------------------------------

#[derive(Clone, Copy, Debug, PartialEq, Eq)]
pub struct Cfg {
    /// Pending answers available to each scripted leaf.
    pub p: u8,
    /// items available to each scripted stream leaf
    pub i: u8,
    /// leaves may wake their own waker from inside poll before answering Pending
    pub self_wake: bool,
    /// streams may answer None while they still have items left
    pub early_end: bool,
    /// budget: invocations of stale / repeated / finished-child wakers between polls
    pub stale: u8,
    /// budget: polls of the subject that nobody asked for
    pub spurious: u8,
    /// budget: a leaf invokes another outstanding waker from inside its own poll
    pub inpoll: u8,
    /// budget: drop the subject at an arbitrary point (terminal)
    pub drops: u8,
    /// budget: a leaf panics in poll
    pub panics: u8,
    /// deviation bound (u32::MAX = every choice is free)
    pub dev: u32,
    /// partial-order reduction on the order of wake-ups between two polls
    pub por: bool,
    /// stop after this many items were yielded by a stream subject (0 = no horizon)
    pub max_items: u16,
    /// group suites: number of group operations available
    pub ops: u8,
    /// poll the subject once more after its final result (it may panic or answer anything, but must not poll a child)
    pub probe: bool,
    /// scripted streams report size hints: (0 or the exact count, Some(items they can still produce)); off: (0, None)
    pub hints: bool,
    /// budget: a leaf that is dropped inside a combinator's poll invokes the current waker of a pending sibling from its
    /// destructor ("dropping the sender notifies the receiver")
    pub dropwake: u8,
}

impl Cfg {
    pub const fn base() -> Cfg {
        Cfg {
            p: 1,
            i: 1,
            self_wake: true,
            early_end: true,
            stale: 0,
            spurious: 0,
            inpoll: 0,
            drops: 0,
            panics: 0,
            dev: u32::MAX,
            por: true,
            max_items: 0,
            ops: 0,
            probe: false,
            hints: true,
            dropwake: 0,
        }
    }
}

#[derive(Clone, Copy, Debug, Default, PartialEq, Eq)]
pub struct Spec {
    pub never: bool,
    pub always: bool,
    pub can_err: bool,
    /// this leaf never answers Pending (ready on every poll)
    pub eager: bool,
    /// this leaf answers Pending on its first poll without that being a choice (or a deviation): the default environment
    /// then fires its waker and it proceeds as usual - used to put many children in flight under a small deviation bound
    pub lazy: bool,
}

// ---------------------------------------------------------------------------------------
// records
// ---------------------------------------------------------------------------------------

#[derive(Clone, Copy, PartialEq, Eq, Debug)]
pub enum Ans {
    Unpolled,
    Pending,
    Ready,
    Item,
    End,
    Panicked,
}

#[derive(Clone, Copy, PartialEq, Eq, Debug)]
pub enum Fam {
    Join,
    TryJoin,
    Race,
    RaceOk,
    Merge,
    Zip,
    Chain,
    FutGroup,
    StrGroup,
    WaitFut,
    WaitStr,
    Co,
    Opaque,
}

#[derive(Clone, Copy, PartialEq, Eq, Debug)]
pub enum Last {
    NotPolled,
    Pending,
    Item,
    Final,
    Panicked,
}

pub struct CombRec {
    pub fam: Fam,
    pub parent_child: u32,
    pub gen: u32,
    pub woken: bool,
    pub last: Last,
    pub alive: bool,
    pub in_poll: bool,
    /// C16 applies (std build, join / try_join / merge / zip / groups)
    pub selective: bool,
    /// C20 first sentence applies
    pub concurrent: bool,
    /// children currently owned, by slot (static containers) or insertion order (groups)
    pub children: Vec<u32>,
    /// answers given by children during the current / most recent poll: (child, ans, sig, is_err)
    pub answers: Vec<(u32, Ans, u64, bool)>,
    /// a deciding answer was seen in this poll: nothing may be polled after it
    pub short: bool,
    pub fired_slot: Vec<bool>,
    /// home property of the family semantics (C04 ..)
    pub home: u8,
    pub items_out: u32,
    /// origin (child id) of every item yielded so far (merge fairness, C17)
    pub yields: Vec<u32>,
    /// the combinator's final result was an error (try_join)
    pub final_err: bool,
}

pub struct ChildRec {
    pub owner: u16,
    pub slot: u16,
    pub is_stream: bool,
    pub is_inner: bool,
    pub spec: Spec,
    pub pend_left: u8,
    pub items_left: u8,
    pub seq: u16,
    pub polls: u32,
    pub last: Ans,
    pub finished: bool,
    pub in_poll: bool,
    pub fired_in_poll: bool,
    pub needs_poll: bool,
    pub cur: u32,
    pub prev: u32,
    pub first: u32,
    pub out_sig: u64,
    pub is_err: bool,
    pub buffered: u64,
    pub removed: bool,
    pub first_poll_step: u32,
    pub role_tag: u8,
    /// a stream child that stays Pending forever (waker never fired) once it has produced this many items
    pub never_after: u16,
    /// address at which a !Unpin leaf was first polled (0 = not tracked): it must never change afterwards
    pub addr: usize,
}

pub struct WakerRec {
    pub child: u32,
    pub waker: Waker,
    pub fires: u32,
}

#[derive(Clone, Debug)]
pub struct Violation {
    pub prop: u8,
    pub msg: String,
}

#[derive(Clone, Copy, Debug, PartialEq, Eq)]
pub enum Ev {
    CombPoll(u16, u32),
    CombRet(u16, Last),
    ChildPoll(u32, u32),
    ChildAns(u32, Ans, bool),
    Fire(u32, u32, bool, bool),
    ParentWoken(u16, u32, bool),
    Spurious,
    DropSubject,
    Op(u8, u32, u32),
    Note(u32),
}

pub struct Chooser {
    pub pre: Vec<u16>,
    pub rec: Vec<(u16, u16)>,
    pub diverged: bool,
    pub devs: u32,
}

impl Chooser {
    #[inline]
    pub fn choose(&mut self, arity: usize) -> usize {
        if arity <= 1 {
            return 0;
        }
        let i = self.rec.len();
        let c = if i < self.pre.len() {
            let c = self.pre[i] as usize;
            if c >= arity {
                self.diverged = true;
                0
            } else {
                c
            }
        } else {
            0
        };
        if c != 0 {
            self.devs += 1;
        }
        self.rec.push((c as u16, arity as u16));
        c
    }
}

pub struct World {
    pub cfg: Cfg,
    pub ch: Chooser,
    pub combs: Vec<CombRec>,
    pub stack: Vec<u16>,
    pub children: Vec<ChildRec>,
    pub wakers: Vec<WakerRec>,
    pub events: Vec<Ev>,
    pub log_events: bool,
    pub violations: Vec<Violation>,
    pub stale_left: u8,
    pub spurious_left: u8,
    pub inpoll_left: u8,
    pub dropwake_left: u8,
    /// inside a group operation or the drop of the subject (destructors run there too)
    pub op_depth: u8,
    pub drops_left: u8,
    pub panics_left: u8,
    pub ops_left: u8,
    pub steps: u32,
    pub outcome: u64,
    pub in_fire: u32,
    pub panic_injected: bool,
    pub abstract_hashes: Vec<u64>,
    pub track_states: bool,
    pub child_poll_cap: u32,
    pub total_child_polls: u32,
    /// scratch space for family drivers (e.g. reference models of groups / co-streams)
    pub scratch: Vec<u64>,
    pub last_fired_child: u32,
}

#[derive(Default)]
pub struct DropLog {
    /// per value: 0 live, 1 dropped once, ..
    pub vals: Vec<u8>,
    pub val_returned: Vec<bool>,
    pub val_origin: Vec<(u32, u16)>,
    pub children: Vec<u8>,
    pub bad: Vec<String>,
    pub clock: u32,
}

thread_local! {
    pub static WORLD: RefCell<World> = RefCell::new(World::new());
    pub static DROPS: RefCell<DropLog> = RefCell::new(DropLog::default());
}

#[inline]
pub fn with<R>(f: impl FnOnce(&mut World) -> R) -> R {
    WORLD.with(|w| f(&mut w.borrow_mut()))
}

#[inline]
pub fn with_drops<R>(f: impl FnOnce(&mut DropLog) -> R) -> R {
    DROPS.with(|d| f(&mut d.borrow_mut()))
}

pub fn mix(h: u64, v: u64) -> u64 {
    (h ^ v).wrapping_mul(0x100000001b3).rotate_left(23) ^ 0x9E3779B97F4A7C15
}

pub struct Decision {
    pub pre_wake: Option<(u32, Waker)>,
    pub ans: LeafAns,
}

#[derive(Clone, Copy, PartialEq, Eq, Debug)]
pub enum LeafAns {
    ReadyOk,
    ReadyErr,
    Pending,
    PendingSelf,
    Item,
    End,
    Panic,
}

impl World {
    pub fn new() -> World {
        World {
            cfg: Cfg::base(),
            ch: Chooser { pre: Vec::new(), rec: Vec::new(), diverged: false, devs: 0 },
            combs: Vec::new(),
            stack: Vec::new(),
            children: Vec::new(),
            wakers: Vec::new(),
            events: Vec::new(),
            log_events: false,
            violations: Vec::new(),
            stale_left: 0,
            spurious_left: 0,
            inpoll_left: 0,
            dropwake_left: 0,
            op_depth: 0,
            drops_left: 0,
            panics_left: 0,
            ops_left: 0,
            steps: 0,
            outcome: 0,
            in_fire: NONE,
            panic_injected: false,
            abstract_hashes: Vec::new(),
            track_states: false,
            child_poll_cap: 2000,
            total_child_polls: 0,
            scratch: Vec::new(),
            last_fired_child: NONE,
        }
    }

    pub fn reset(&mut self, cfg: Cfg, prefix: &[u16]) {
        self.cfg = cfg;
        self.ch.pre.clear();
        self.ch.pre.extend_from_slice(prefix);
        self.ch.rec.clear();
        self.ch.diverged = false;
        self.ch.devs = 0;
        self.combs.clear();
        self.stack.clear();
        self.children.clear();
        self.wakers.clear();
        self.events.clear();
        self.violations.clear();
        self.stale_left = cfg.stale;
        self.spurious_left = cfg.spurious;
        self.inpoll_left = cfg.inpoll;
        self.dropwake_left = cfg.dropwake;
        self.op_depth = 0;
        self.drops_left = cfg.drops;
        self.panics_left = cfg.panics;
        self.ops_left = cfg.ops;
        self.steps = 0;
        self.outcome = 0x1234_5678;
        self.in_fire = NONE;
        self.panic_injected = false;
        self.abstract_hashes.clear();
        self.total_child_polls = 0;
        self.scratch.clear();
        self.last_fired_child = NONE;
    }

    #[inline]
    pub fn choose(&mut self, arity: usize) -> usize {
        self.ch.choose(arity)
    }

    #[inline]
    pub fn ev(&mut self, e: Ev) {
        if self.log_events {
            self.events.push(e);
        }
    }

    /// At most two messages per property and execution are kept, so that a monitor that fires at every
    /// step cannot crowd out the verdict of another property.
    pub fn violate(&mut self, prop: u8, msg: impl FnOnce() -> String) {
        if self.violations.iter().filter(|v| v.prop == prop).count() < 2 {
            let m = msg();
            self.violations.push(Violation { prop, msg: m });
        }
    }

    // ------------------------------------------------------------------ construction

    pub fn new_comb(&mut self, fam: Fam, parent_child: u32, selective: bool, concurrent: bool, home: u8) -> u16 {
        self.combs.push(CombRec {
            fam,
            parent_child,
            gen: 0,
            woken: false,
            last: Last::NotPolled,
            alive: true,
            in_poll: false,
            selective,
            concurrent,
            children: Vec::new(),
            answers: Vec::new(),
            short: false,
            fired_slot: Vec::new(),
            home,
            items_out: 0,
            yields: Vec::new(),
            final_err: false,
        });
        (self.combs.len() - 1) as u16
    }

    pub fn new_child(&mut self, owner: u16, slot: u16, is_stream: bool, is_inner: bool, spec: Spec) -> u32 {
        let id = self.children.len() as u32;
        self.children.push(ChildRec {
            owner,
            slot,
            is_stream,
            is_inner,
            spec,
            pend_left: if spec.eager || spec.always { 0 } else { self.cfg.p },
            items_left: self.cfg.i,
            seq: 0,
            polls: 0,
            last: Ans::Unpolled,
            finished: false,
            in_poll: false,
            fired_in_poll: false,
            needs_poll: false,
            cur: NONE,
            prev: NONE,
            first: NONE,
            out_sig: 0,
            is_err: false,
            buffered: 0,
            removed: false,
            first_poll_step: NONE,
            role_tag: 0,
            never_after: u16::MAX,
            addr: 0,
        });
        if owner != u16::MAX {
            let c = &mut self.combs[owner as usize];
            c.children.push(id);
            if c.fired_slot.len() <= slot as usize {
                c.fired_slot.resize(slot as usize + 1, false);
            }
        }
        with_drops(|d| {
            if d.children.len() <= id as usize {
                d.children.resize(id as usize + 1, 0);
            }
            d.children[id as usize] = 0;
        });
        id
    }

    /// (re)attach a child to an owner / slot (group insert)
    pub fn attach(&mut self, child: u32, owner: u16, slot: u16) {
        let c = &mut self.children[child as usize];
        c.owner = owner;
        c.slot = slot;
        let k = &mut self.combs[owner as usize];
        k.children.push(child);
        if k.fired_slot.len() <= slot as usize {
            k.fired_slot.resize(slot as usize + 1, false);
        }
    }

    /// the slot of a group member is only known once `insert` has returned its key
    pub fn set_slot(&mut self, child: u32, slot: u16) {
        let owner = self.children[child as usize].owner;
        self.children[child as usize].slot = slot;
        if owner != u16::MAX {
            let k = &mut self.combs[owner as usize];
            if k.fired_slot.len() <= slot as usize {
                k.fired_slot.resize(slot as usize + 1, false);
            }
        }
    }

    pub fn detach(&mut self, child: u32) {
        let owner = self.children[child as usize].owner;
        self.children[child as usize].removed = true;
        if owner != u16::MAX {
            self.combs[owner as usize].children.retain(|&c| c != child);
        }
    }

    // ------------------------------------------------------------------ combinator polls

    pub fn comb_poll_begin(&mut self, k: u16) {
        let c = &mut self.combs[k as usize];
        c.gen += 1;
        c.woken = false;
        c.in_poll = true;
        c.answers.clear();
        c.short = false;
        let g = c.gen;
        self.stack.push(k);
        self.ev(Ev::CombPoll(k, g));
    }

    /// Generic monitors at the return of a combinator's poll. Family checks are separate.
    pub fn comb_poll_end(&mut self, k: u16, last: Last) {
        let top = self.stack.pop();
        debug_assert_eq!(top, Some(k));
        {
            let c = &mut self.combs[k as usize];
            c.in_poll = false;
            c.last = last;
            if last == Last::Final || last == Last::Panicked {
                // the combinator is finished; it keeps existing until dropped
            }
        }
        self.ev(Ev::CombRet(k, last));
        if last == Last::Pending {
            self.check_started(k);
            self.check_wake(k);
        }
    }

    /// C20 (first sentence): at a Pending return every owned child has been polled at least once.
    fn check_started(&mut self, k: u16) {
        let c = &self.combs[k as usize];
        if !c.concurrent {
            return;
        }
        for &ch in &c.children {
            let r = &self.children[ch as usize];
            if !r.removed && r.polls == 0 {
                let (slot, fam) = (r.slot, c.fam);
                self.violate(20, || format!("{:?}#{} returned Pending but child at slot {} was never polled", fam, k, slot));
                return;
            }
        }
    }

    /// C01 invariant for combinator k (see DESIGN.md §6 C01).
    pub fn check_wake(&mut self, k: u16) {
        let c = &self.combs[k as usize];
        if !c.alive || c.in_poll || c.last != Last::Pending || c.woken || c.fam == Fam::Co {
            return;
        }
        for &ch in &c.children {
            let r = &self.children[ch as usize];
            if !r.finished && !r.removed && r.needs_poll {
                let (slot, fam, gen) = (r.slot, c.fam, c.gen);
                self.violate(1, || {
                    format!(
                        "{:?}#{}: child at slot {} invoked its current waker while Pending, but the waker of the latest poll (generation {}) was not woken and the child was not re-polled",
                        fam, k, slot, gen
                    )
                });
                return;
            }
        }
    }

    pub fn check_wake_all(&mut self) {
        for k in 0..self.combs.len() {
            self.check_wake(k as u16);
        }
    }

    pub fn parent_woken(&mut self, k: u16, gen: u32) {
        let c = &mut self.combs[k as usize];
        let latest = gen == c.gen;
        if latest {
            c.woken = true;
        }
        self.ev(Ev::ParentWoken(k, gen, latest));
        // an inner combinator's (interposed) waker being invoked is the inner "child" of
        // the outer combinator invoking the waker it was handed
        // (an old generation's waker is a stale waker of that child: it still counts as "a waker
        // handed out for that slot was invoked" for C16, but creates no C01 obligation)
        let pc = self.combs[k as usize].parent_child;
        if pc != NONE {
            self.child_waker_invoked(pc, latest);
        }
    }

    /// Pin contract: a `!Unpin` child that has been polled must stay where it is until it is dropped.
    pub fn check_pinned(&mut self, id: u32, addr: usize) {
        let r = &mut self.children[id as usize];
        if r.addr == 0 {
            r.addr = addr;
        } else if r.addr != addr {
            let home = self.combs[r.owner as usize].home;
            let polls = r.polls;
            self.violate(home, || format!("child {} (a !Unpin future) was moved after it had been polled {} time(s): an address-sensitive future would be invalid, its output is lost", id, polls));
            self.children[id as usize].addr = addr;
        }
    }

    // ------------------------------------------------------------------ child polls

    /// Bookkeeping + monitors at the start of a child's poll.
    pub fn child_poll_begin(&mut self, id: u32, waker: &Waker) {
        self.total_child_polls += 1;
        let (owner, slot, finished, last, buffered, removed) = {
            let r = &self.children[id as usize];
            (r.owner, r.slot, r.finished, r.last, r.buffered, r.removed)
        };
        let step = self.steps;
        self.ev(Ev::ChildPoll(id, step));
        // C03 (1): never polled after completion
        let owner_fam = if owner != u16::MAX { Some((self.combs[owner as usize].fam, self.combs[owner as usize].home)) } else { None };
        if finished {
            self.violate(3, || format!("child {} (slot {}) polled again after it completed ({:?})", id, slot, last));
            // family clauses that repeat this for particular children
            if let Some((f, home)) = owner_fam {
                if matches!(f, Fam::RaceOk | Fam::WaitFut | Fam::WaitStr | Fam::StrGroup | Fam::Chain) {
                    self.violate(home, || format!("{:?}#{}: child at slot {} polled again after it completed ({:?})", f, owner, slot, last));
                }
            }
        }
        if removed {
            self.violate(3, || format!("child {} (slot {}) polled after it was removed from its group", id, slot));
            if let Some((f, home)) = owner_fam {
                self.violate(home, || format!("{:?}#{}: member with key slot {} polled after it was removed", f, owner, slot));
            }
        }
        // C03 (2): only from inside the owner's poll
        if owner != u16::MAX {
            if self.stack.last() != Some(&owner) {
                let st = self.stack.clone();
                self.violate(3, || format!("child {} (slot {}) polled outside a poll of its owner #{} (active: {:?})", id, slot, owner, st));
            }
            let unknown_slot = self.children[id as usize].role_tag == TAG_UNKNOWN_SLOT;
            let (short, fam, home, selective, fired, alive, klast) = {
                let c = &self.combs[owner as usize];
                (c.short, c.fam, c.home, c.selective && !unknown_slot, c.fired_slot.get(slot as usize).copied().unwrap_or(false), c.alive, c.last)
            };
            if short {
                self.violate(home, || format!("{:?}#{}: child at slot {} polled after the deciding answer of this poll", fam, owner, slot));
            }
            let reusable = matches!(fam, Fam::FutGroup | Fam::StrGroup);
            if !alive || (klast == Last::Final && !reusable) {
                self.violate(3, || format!("{:?}#{}: child at slot {} polled after the combinator produced its final result", fam, owner, slot));
                if matches!(fam, Fam::TryJoin | Fam::Race | Fam::RaceOk) {
                    self.violate(home, || format!("{:?}#{}: child at slot {} polled after the combinator had resolved", fam, owner, slot));
                }
            }
            // C16: a child whose previous answer was Pending is re-polled only after a wake-up for its slot
            if selective && last == Ans::Pending && !fired {
                self.violate(16, || format!("{:?}#{}: child at slot {} re-polled although no waker handed out for that slot was invoked since its last poll", fam, owner, slot));
            }
            // C10: an input of a chain is not polled before every earlier input has ended
            if fam == Fam::Chain && slot > 0 {
                let prev_done = self.combs[owner as usize]
                    .children
                    .iter()
                    .filter(|&&c| self.children[c as usize].slot < slot)
                    .all(|&c| self.children[c as usize].finished && self.children[c as usize].last == Ans::End);
                if !prev_done {
                    self.violate(10, || format!("Chain#{}: input {} polled before every earlier input returned None", owner, slot));
                }
            }
            if buffered != 0 && fam == Fam::Zip {
                self.violate(9, || format!("Zip#{}: input {} polled while its item for the current row is still buffered", owner, slot));
            }
            if !unknown_slot {
                if let Some(f) = self.combs[owner as usize].fired_slot.get_mut(slot as usize) {
                    *f = false;
                }
            }
        }
        // waker registry
        let wid = self.wakers.len() as u32;
        self.wakers.push(WakerRec { child: id, waker: waker.clone(), fires: 0 });
        let r = &mut self.children[id as usize];
        if r.first == NONE {
            r.first = wid;
        }
        if r.cur != NONE {
            let same = self.wakers[r.cur as usize].waker.will_wake(waker);
            if !same {
                r.prev = r.cur;
            }
        }
        r.cur = wid;
        r.polls += 1;
        if r.first_poll_step == NONE {
            r.first_poll_step = step;
        }
        r.in_poll = true;
        r.fired_in_poll = false;
        r.needs_poll = false;
    }

    /// Choose what a scripted leaf does in this poll.
    pub fn leaf_decide(&mut self, id: u32) -> Decision {
        // optional: wake some other outstanding waker from inside this poll
        let mut pre_wake = None;
        if self.inpoll_left > 0 && self.dev_ok() {
            let cands = self.inpoll_candidates(id);
            if !cands.is_empty() {
                let c = self.choose(cands.len() + 1);
                if c > 0 {
                    self.inpoll_left -= 1;
                    let wid = cands[c - 1];
                    pre_wake = Some((wid, self.wakers[wid as usize].waker.clone()));
                }
            }
        }
        let r = &self.children[id as usize];
        let mut opts: [LeafAns; 6] = [LeafAns::Pending; 6];
        let mut n = 0;
        if r.spec.never || r.seq >= r.never_after || (r.spec.lazy && r.last == Ans::Unpolled) {
            opts[n] = LeafAns::Pending;
            n += 1;
        } else {
            if r.is_stream {
                if r.spec.always || r.items_left > 0 {
                    opts[n] = LeafAns::Item;
                    n += 1;
                    if self.cfg.early_end && !r.spec.always {
                        opts[n] = LeafAns::End;
                        n += 1;
                    }
                } else {
                    opts[n] = LeafAns::End;
                    n += 1;
                }
            } else {
                opts[n] = LeafAns::ReadyOk;
                n += 1;
                if r.spec.can_err {
                    opts[n] = LeafAns::ReadyErr;
                    n += 1;
                }
            }
            if r.pend_left > 0 && !r.finished {
                opts[n] = LeafAns::Pending;
                n += 1;
                if self.cfg.self_wake {
                    opts[n] = LeafAns::PendingSelf;
                    n += 1;
                }
            }
            if self.panics_left > 0 {
                opts[n] = LeafAns::Panic;
                n += 1;
            }
        }
        let n_eff = if self.dev_ok() { n } else { 1 };
        let c = self.choose(n_eff);
        let ans = opts[c];
        let r = &mut self.children[id as usize];
        match ans {
            LeafAns::Pending | LeafAns::PendingSelf => {
                if !(r.spec.never || r.seq >= r.never_after || (r.spec.lazy && r.last == Ans::Unpolled)) {
                    r.pend_left -= 1;
                }
            }
            LeafAns::Item => {
                if !r.spec.always {
                    r.items_left -= 1;
                }
            }
            LeafAns::Panic => {
                self.panics_left -= 1;
                self.panic_injected = true;
            }
            _ => {}
        }
        Decision { pre_wake, ans }
    }

    #[inline]
    pub fn dev_ok(&self) -> bool {
        self.ch.devs < self.cfg.dev
    }

    /// A leaf is being dropped: may its destructor wake a pending sibling? Only inside a combinator's poll, a group
    /// operation (remove) or the drop of the subject (that is where a combinator could hold a lock), only siblings that
    /// are live and Pending.
    pub fn dropwake_decide(&mut self, me: u32) -> Option<(u32, Waker)> {
        if self.dropwake_left == 0 || (self.stack.is_empty() && self.op_depth == 0) || !self.dev_ok() {
            return None;
        }
        let mut cands = Vec::new();
        for (cid, r) in self.children.iter().enumerate() {
            // a pending sibling's current waker, or the dying leaf's own (a future that wakes its task when it is cancelled)
            let own = cid as u32 == me;
            if r.is_inner || r.cur == NONE || r.spec.never || r.finished || (r.removed && !own) || r.in_poll || r.last != Ans::Pending {
                continue;
            }
            cands.push(r.cur);
        }
        if cands.is_empty() {
            return None;
        }
        let c = self.choose(cands.len() + 1);
        if c == 0 {
            return None;
        }
        self.dropwake_left -= 1;
        let wid = cands[c - 1];
        Some((wid, self.wakers[wid as usize].waker.clone()))
    }

    fn inpoll_candidates(&self, me: u32) -> Vec<u32> {
        let mut v = Vec::new();
        for (cid, r) in self.children.iter().enumerate() {
            if cid as u32 == me || r.is_inner || r.cur == NONE || r.spec.never {
                continue;
            }
            // the sibling's current waker (whether or not it already fired / finished)
            v.push(r.cur);
        }
        v
    }

    /// Record a child's answer. `sig` identifies the produced value (0 if none).
    pub fn child_answer(&mut self, id: u32, ans: Ans, sig: u64, is_err: bool) {
        self.ev(Ev::ChildAns(id, ans, is_err));
        let r = &mut self.children[id as usize];
        r.last = ans;
        r.in_poll = false;
        match ans {
            Ans::Pending => {
                r.needs_poll = r.fired_in_poll;
            }
            Ans::Ready => {
                r.finished = true;
                r.out_sig = sig;
                r.is_err = is_err;
            }
            Ans::End => {
                r.finished = true;
            }
            Ans::Item => {
                r.seq += 1;
                r.out_sig = sig;
            }
            Ans::Panicked => {
                r.finished = true;
            }
            Ans::Unpolled => {}
        }
        let owner = r.owner;
        let slot = r.slot;
        if owner == u16::MAX {
            return;
        }
        let k = &mut self.combs[owner as usize];
        k.answers.push((id, ans, sig, is_err));
        // which answers end the scan of the owner's current poll
        let short = match (k.fam, ans) {
            (Fam::TryJoin, Ans::Ready) => is_err,
            (Fam::Race, Ans::Ready) => true,
            (Fam::RaceOk, Ans::Ready) => !is_err,
            (Fam::Merge, Ans::Item) => true,
            (Fam::Zip, Ans::End) => true,
            (Fam::Chain, Ans::Item) | (Fam::Chain, Ans::Pending) => true,
            (Fam::FutGroup, Ans::Ready) => true,
            (Fam::StrGroup, Ans::Item) => true,
            _ => false,
        };
        if short {
            k.short = true;
        }
        if k.fam == Fam::Zip && ans == Ans::Item {
            let _ = slot;
            self.children[id as usize].buffered = sig | 1;
            // row complete?
            let k = &self.combs[owner as usize];
            let all = k.children.iter().all(|&c| self.children[c as usize].buffered != 0);
            if all {
                self.combs[owner as usize].short = true;
            }
        }
    }

    // ------------------------------------------------------------------ wakers

    /// Called immediately before waker record `wid` is invoked by the harness.
    pub fn before_fire(&mut self, wid: u32, inside_poll: bool) {
        let child = self.wakers[wid as usize].child;
        self.wakers[wid as usize].fires += 1;
        let cur = self.children[child as usize].cur;
        let current = cur == wid || (cur != NONE && self.wakers[cur as usize].waker.will_wake(&self.wakers[wid as usize].waker));
        self.ev(Ev::Fire(wid, child, current, inside_poll));
        self.child_waker_invoked(child, current);
    }

    /// `current`: the invoked waker is (equivalent to) the one handed to the child in its most recent poll.
    pub fn child_waker_invoked(&mut self, child: u32, current: bool) {
        let r = &mut self.children[child as usize];
        let (owner, slot) = (r.owner, r.slot);
        if current {
            if r.in_poll {
                r.fired_in_poll = true;
            } else if r.last == Ans::Pending && !r.finished && !r.removed {
                r.needs_poll = true;
            }
        }
        if owner != u16::MAX {
            if self.children[child as usize].role_tag == TAG_UNKNOWN_SLOT {
                // which key this member holds / held is unknown: be lenient for every slot
                for f in self.combs[owner as usize].fired_slot.iter_mut() {
                    *f = true;
                }
            } else if let Some(f) = self.combs[owner as usize].fired_slot.get_mut(slot as usize) {
                *f = true;
            }
        }
    }

    /// Wakers that the environment may fire for free: the current, not yet fired waker of a live
    /// child whose last answer was Pending.
    pub fn fireable(&self, out: &mut Vec<u32>) {
        out.clear();
        for r in self.children.iter() {
            if r.is_inner || r.finished || r.removed || r.spec.never || r.seq >= r.never_after || r.last != Ans::Pending || r.cur == NONE {
                continue;
            }
            if self.wakers[r.cur as usize].fires == 0 {
                out.push(r.cur);
            }
        }
    }

    /// Stale / repeated / finished-child wakers (budgeted).
    pub fn stale_candidates(&self, out: &mut Vec<u32>) {
        out.clear();
        for r in self.children.iter() {
            if r.is_inner || r.cur == NONE || r.spec.never {
                continue;
            }
            let cur_free = !r.finished && !r.removed && r.last == Ans::Pending && self.wakers[r.cur as usize].fires == 0;
            if !cur_free {
                out.push(r.cur);
            }
            if r.prev != NONE {
                out.push(r.prev);
            }
            if r.first != NONE && r.first != r.cur && r.first != r.prev {
                let fw = &self.wakers[r.first as usize].waker;
                let dup = fw.will_wake(&self.wakers[r.cur as usize].waker) || (r.prev != NONE && fw.will_wake(&self.wakers[r.prev as usize].waker));
                if !dup {
                    out.push(r.first);
                }
            }
        }
    }

    pub fn abstract_state(&self) -> u64 {
        let mut h = 0xcbf29ce484222325u64;
        for c in &self.combs {
            h = mix(h, (c.last as u64) | ((c.woken as u64) << 8) | ((c.alive as u64) << 9) | ((c.items_out as u64) << 16));
        }
        for r in &self.children {
            let fired = if r.cur != NONE { self.wakers[r.cur as usize].fires.min(3) } else { 0 };
            h = mix(
                h,
                (r.last as u64)
                    | ((r.polls.min(255) as u64) << 8)
                    | ((r.finished as u64) << 16)
                    | ((r.needs_poll as u64) << 17)
                    | ((r.removed as u64) << 18)
                    | ((r.is_err as u64) << 19)
                    | ((fired as u64) << 20)
                    | ((r.pend_left as u64) << 24)
                    | ((r.items_left as u64) << 32)
                    | (((r.buffered != 0) as u64) << 40)
                    | ((r.slot as u64) << 44),
            );
        }
        h = mix(h, (self.stale_left as u64) | ((self.spurious_left as u64) << 8) | ((self.drops_left as u64) << 16) | ((self.ops_left as u64) << 24));
        for s in &self.scratch {
            h = mix(h, *s);
        }
        h
    }

    pub fn note_state(&mut self) {
        // wide containers: fingerprinting is O(children) per step; only small shapes are counted
        if self.track_states && self.children.len() <= 32 {
            let h = self.abstract_state();
            self.abstract_hashes.push(h);
        }
    }
}
