//! join / try_join / race / race_ok over tuples, arrays and Vecs, `FutureExt::{join, race}`,
//! future `wait_until`, with optional one level of nesting.

use futures_concurrency::future::FutureExt;
use futures_concurrency::prelude::*;
use polldfs_core::*;
use crate::*;
use std::future::Future;
use std::ops::DerefMut;

pub struct FutSubject(pub BoxFut);
impl Subject for FutSubject {
    fn poll(&mut self, cx: &mut std::task::Context<'_>) -> Polled {
        match self.0.as_mut().poll(cx) {
            std::task::Poll::Pending => Polled::Pending,
            std::task::Poll::Ready(r) => Polled::Done(r),
        }
    }
}

pub fn fam_of(s: &str) -> Fam {
    match s {
        "join" => Fam::Join,
        "try_join" => Fam::TryJoin,
        "race" => Fam::Race,
        "race_ok" => Fam::RaceOk,
        "wait" => Fam::WaitFut,
        other => panic!("unknown family {}", other),
    }
}

fn bx<F: Future + 'static>(f: F, m: impl Fn(F::Output) -> Ret + 'static) -> BoxFut {
    Box::pin(MapFut::new(f, m))
}

fn m_join<C: Flat>(c: C) -> Ret {
    Ret::Plain(Out::L(c.flat()))
}
fn m_try<C: Flat>(r: Result<C, Out>) -> Ret {
    match r {
        Ok(c) => Ret::Ok(Out::L(c.flat())),
        Err(e) => Ret::Err(e),
    }
}
fn m_race(o: Out) -> Ret {
    Ret::Plain(o)
}
fn m_race_ok<A, T>(r: Result<Out, A>) -> Ret
where
    A: DerefMut<Target = T>,
    T: AsMut<[Out]>,
{
    match r {
        Ok(o) => Ret::Ok(o),
        Err(mut agg) => {
            let v: Vec<Out> = agg.deref_mut().as_mut().iter_mut().map(|e| std::mem::replace(e, Out::L(Vec::new()))).collect();
            Ret::Err(Out::L(v))
        }
    }
}

pub fn concurrent(f: Fam) -> bool {
    matches!(f, Fam::Join | Fam::TryJoin | Fam::Race | Fam::RaceOk)
}
pub fn selective(f: Fam) -> bool {
    STD && matches!(f, Fam::Join | Fam::TryJoin)
}

/// Create the children of combinator `comb` (leaves, or a nested combinator at slot `npos`).
fn plain_nodes(item: &PItem, comb: u16, n: usize, depth: usize) -> Vec<Node> {
    let nest = item.s("nest");
    let npos = item.u("npos", 0);
    let v: Vec<_> = (0..n)
        .map(|slot| {
            if depth == 0 && !nest.is_empty() && slot == npos {
                let ifam = fam_of(nest);
                let child = with(|w| w.new_child(comb, slot as u16, false, true, Spec::default()));
                let k2 = with(|w| w.new_comb(ifam, child, selective(ifam), concurrent(ifam), home_of(ifam)));
                let inner = build(item, ifam, item.s("ncont"), item.u("nin", 2), k2, 1);
                Node::Inner(NestFut(Nest { child, comb: k2, inner: Some(inner) }))
            } else {
                let id = with(|w| w.new_child(comb, slot as u16, false, false, if depth == 0 { spec_for(item, slot) } else { inner_spec(item, slot) }));
                Node::Leaf(Leaf { id })
            }
        })
        .collect();
    crate::shape_vec(item, v)
}

fn inner_spec(item: &PItem, slot: usize) -> Spec {
    let nv = item.u("inv", 0);
    Spec { never: slot < 64 && (nv >> slot) & 1 == 1, always: false, can_err: item.u("err", 0) != 0, eager: false, lazy: false }
}

fn try_nodes(item: &PItem, comb: u16, n: usize, depth: usize) -> Vec<TryNode> {
    let nest = item.s("nest");
    let npos = item.u("npos", 0);
    let v: Vec<_> = (0..n)
        .map(|slot| {
            if depth == 0 && !nest.is_empty() && slot == npos {
                let ifam = fam_of(nest);
                let child = with(|w| w.new_child(comb, slot as u16, false, true, Spec::default()));
                let k2 = with(|w| w.new_comb(ifam, child, selective(ifam), concurrent(ifam), home_of(ifam)));
                let inner = build(item, ifam, item.s("ncont"), item.u("nin", 2), k2, 1);
                TryNode::Inner(NestTry(Nest { child, comb: k2, inner: Some(inner) }))
            } else {
                let mut sp = if depth == 0 { spec_for(item, slot) } else { inner_spec(item, slot) };
                sp.can_err = item.u("err", 1) != 0;
                let id = with(|w| w.new_child(comb, slot as u16, false, false, sp));
                TryNode::Leaf(TryLeaf { id })
            }
        })
        .collect();
    crate::shape_vec(item, v)
}

pub fn build(item: &PItem, fam: Fam, cont: &str, n: usize, comb: u16, depth: usize) -> BoxFut {
    let cont = if cont.is_empty() { "vec" } else { cont };
    match fam {
        Fam::Join => {
            let nodes = plain_nodes(item, comb, n, depth);
            match cont {
                #[cfg(any(feature = "cfg-std", feature = "cfg-alloc"))]
                "vec" => bx(nodes.join(), m_join),
                "array" => with_array!(n, nodes, a => bx(a.join(), m_join)),
                "tuple" => {
                    if n == 0 {
                        bx(().join(), m_join)
                    } else {
                        with_tuple!(n, nodes, t => bx(t.join(), m_join))
                    }
                }
                "ext" => {
                    let mut it = nodes.into_iter();
                    let (a, b) = (it.next().unwrap(), it.next().unwrap());
                    bx(FutureExt::join(a, b), m_join)
                }
                other => panic!("container {} not available in this configuration", other),
            }
        }
        Fam::TryJoin => {
            let nodes = try_nodes(item, comb, n, depth);
            match cont {
                #[cfg(any(feature = "cfg-std", feature = "cfg-alloc"))]
                "vec" => bx(nodes.try_join(), m_try),
                "array" => with_array!(n, nodes, a => bx(a.try_join(), m_try)),
                "tuple" => {
                    if n == 0 {
                        bx(().try_join(), |r: Result<(), std::convert::Infallible>| match r {
                            Ok(()) => Ret::Ok(Out::L(Vec::new())),
                            Err(e) => match e {},
                        })
                    } else {
                        with_tuple!(n, nodes, t => bx(t.try_join(), m_try))
                    }
                }
                other => panic!("container {} not available in this configuration", other),
            }
        }
        Fam::Race => {
            let nodes = plain_nodes(item, comb, n, depth);
            match cont {
                #[cfg(any(feature = "cfg-std", feature = "cfg-alloc"))]
                "vec" => bx(nodes.race(), m_race),
                "array" => with_array!(n, nodes, a => bx(a.race(), m_race)),
                "tuple" => with_tuple!(n, nodes, t => bx(t.race(), m_race)),
                "ext" => {
                    let mut it = nodes.into_iter();
                    let (a, b) = (it.next().unwrap(), it.next().unwrap());
                    bx(FutureExt::race(a, b), m_race)
                }
                other => panic!("container {} not available in this configuration", other),
            }
        }
        Fam::RaceOk => {
            let nodes = try_nodes(item, comb, n, depth);
            match cont {
                #[cfg(any(feature = "cfg-std", feature = "cfg-alloc"))]
                "vec" => bx(nodes.race_ok(), m_race_ok),
                "array" => with_array!(n, nodes, a => bx(a.race_ok(), m_race_ok)),
                "tuple" => with_tuple!(n, nodes, t => bx(t.race_ok(), m_race_ok)),
                other => panic!("container {} not available in this configuration", other),
            }
        }
        Fam::WaitFut => {
            // slot 0 = deadline, slot 1 = inner future
            let d = with(|w| w.new_child(comb, 0, false, false, spec_for(item, 0)));
            let i = with(|w| w.new_child(comb, 1, false, false, spec_for(item, 1)));
            bx(FutureExt::wait_until(Leaf { id: i }, Leaf { id: d }), m_race)
        }
        other => panic!("family {:?} is not a future family", other),
    }
}

