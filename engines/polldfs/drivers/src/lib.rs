//! Shared driver code: item keys, command line, report rendering.
//!
//! An item is fully described by its key, a comma separated list of `name=value` pairs, e.g.
//! `fam=join,cont=vec,n=3,p=2,st=1,sp=1`. Suites (lists of keys per property and tier) are
//! defined by /verif/check; the binaries only explore what they are given.

use polldfs_core::*;
#[cfg(any(feature = "cfg-std", feature = "cfg-alloc"))]
pub mod co;
pub mod futs;
#[cfg(any(feature = "cfg-std", feature = "cfg-alloc"))]
pub mod groups;
pub mod strs;
use std::collections::BTreeMap;
use std::io::Write;

pub const STD: bool = cfg!(feature = "cfg-std");
pub const ALLOC: bool = cfg!(feature = "cfg-alloc") || cfg!(feature = "cfg-std");

pub fn cfg_name() -> &'static str {
    if cfg!(feature = "cfg-std") {
        "std"
    } else if cfg!(feature = "cfg-alloc") {
        "alloc"
    } else {
        "nostd"
    }
}

pub struct PItem {
    pub key: String,
    pub kv: BTreeMap<String, String>,
    pub cfg: Cfg,
    pub runner: fn(&PItem),
}

impl PItem {
    pub fn parse(key: &str, runner: fn(&PItem)) -> Result<PItem, String> {
        let mut kv = BTreeMap::new();
        for part in key.split(',') {
            let part = part.trim();
            if part.is_empty() {
                continue;
            }
            let (k, v) = part.split_once('=').ok_or_else(|| format!("bad key part `{}`", part))?;
            kv.insert(k.to_string(), v.to_string());
        }
        let mut cfg = Cfg::base();
        let get = |n: &str, d: i64| -> Result<i64, String> {
            match kv.get(n) {
                None => Ok(d),
                Some(v) if v == "inf" => Ok(-1),
                Some(v) => v.parse::<i64>().map_err(|e| format!("{}={}: {}", n, v, e)),
            }
        };
        cfg.p = get("p", 1)? as u8;
        cfg.i = get("i", 1)? as u8;
        cfg.self_wake = get("sw", 1)? != 0;
        cfg.early_end = get("ee", 1)? != 0;
        cfg.stale = get("st", 0)? as u8;
        cfg.spurious = get("sp", 0)? as u8;
        cfg.inpoll = get("ip", 0)? as u8;
        cfg.drops = get("dr", 0)? as u8;
        cfg.panics = get("pa", 0)? as u8;
        let dev = get("dev", -1)?;
        cfg.dev = if dev < 0 { u32::MAX } else { dev as u32 };
        cfg.por = get("por", 1)? != 0;
        cfg.max_items = get("mi", 0)? as u16;
        cfg.ops = get("ops", 0)? as u8;
        cfg.probe = get("pf", 0)? != 0;
        cfg.hints = get("sh", 1)? != 0;
        cfg.dropwake = get("dw", 0)? as u8;
        Ok(PItem { key: key.to_string(), kv, cfg, runner })
    }
    pub fn s(&self, k: &str) -> &str {
        self.kv.get(k).map(|s| s.as_str()).unwrap_or("")
    }
    pub fn u(&self, k: &str, d: usize) -> usize {
        self.kv.get(k).and_then(|v| v.parse().ok()).unwrap_or(d)
    }
}

impl Item for PItem {
    fn cfg(&self) -> Cfg {
        self.cfg
    }
    fn key(&self) -> String {
        self.key.clone()
    }
    fn run(&self) {
        (self.runner)(self)
    }
}

fn arg<'a>(args: &'a [String], name: &str) -> Option<&'a str> {
    args.iter().position(|a| a == name).and_then(|i| args.get(i + 1)).map(|s| s.as_str())
}

fn found_json(items: &[PItem], f: &Found) -> String {
    format!(
        "{{\"item\":{},\"prop\":{},\"msg\":{},\"hang\":{},\"choices\":{}}}",
        jstr(&items[f.item].key),
        f.prop,
        jstr(&f.msg),
        f.hang,
        choices_json(&f.choices)
    )
}

/// Re-run one trace with event logging; returns (event lines, violations, diverged, record)
pub fn replay(item: &PItem, choices: &[u16]) -> (Vec<String>, Vec<Violation>, bool, Vec<(u16, u16)>) {
    let eo = run_once(item, choices, true, false);
    with(|w| (render_events(w), w.violations.clone(), eo.diverged, w.ch.rec.clone()))
}

pub fn driver_main(binary: &str, runner: fn(&PItem)) {
    let args: Vec<String> = std::env::args().collect();
    std::panic::set_hook(Box::new(|_| {}));
    let targets: Vec<u8> = arg(&args, "--targets").unwrap_or("").split(',').filter(|s| !s.is_empty()).map(|s| s.parse().expect("target")).collect();
    let out_path = arg(&args, "--out").map(|s| s.to_string());

    if let Some(key) = arg(&args, "--replay") {
        let item = PItem::parse(key, runner).unwrap_or_else(|e| {
            eprintln!("bad item key: {}", e);
            std::process::exit(2)
        });
        let choices: Vec<u16> = arg(&args, "--choices").unwrap_or("").split(',').filter(|s| !s.is_empty()).map(|s| s.parse().expect("choice")).collect();
        let (ev1, v1, d1, rec1) = replay(&item, &choices);
        let (ev2, v2, d2, rec2) = replay(&item, &choices);
        let deterministic = ev1 == ev2 && rec1 == rec2 && v1.len() == v2.len() && d1 == d2;
        for l in &ev1 {
            println!("  {}", l);
        }
        for v in &v1 {
            println!("VIOLATED C{:02}: {}", v.prop, v.msg);
        }
        let hit = v1.iter().any(|v| targets.is_empty() || targets.contains(&v.prop));
        if let Some(p) = &out_path {
            let vs: Vec<String> = v1.iter().map(|v| format!("{{\"prop\":{},\"msg\":{}}}", v.prop, jstr(&v.msg))).collect();
            let evs: Vec<String> = ev1.iter().map(|l| jstr(l)).collect();
            let s = format!(
                "{{\"binary\":{},\"cfg\":{},\"item\":{},\"deterministic\":{},\"diverged\":{},\"record\":{},\"violations\":[{}],\"events\":[{}]}}\n",
                jstr(binary),
                jstr(cfg_name()),
                jstr(&item.key),
                deterministic,
                d1,
                choices_json(&rec1),
                vs.join(","),
                evs.join(",")
            );
            std::fs::write(p, s).expect("write out");
        }
        if !deterministic || d1 {
            eprintln!("replay is not deterministic or diverged from the recorded trace (machinery error)");
            std::process::exit(2);
        }
        std::process::exit(if hit { 1 } else { 0 });
    }

    let items_path = arg(&args, "--items").expect("--items FILE or --replay KEY");
    let text = std::fs::read_to_string(items_path).expect("read items");
    let mut items = Vec::new();
    for line in text.lines() {
        let line = line.trim();
        if line.is_empty() || line.starts_with('#') {
            continue;
        }
        match PItem::parse(line, runner) {
            Ok(i) => items.push(i),
            Err(e) => {
                eprintln!("bad item key `{}`: {}", line, e);
                std::process::exit(2);
            }
        }
    }
    let opts = Opts {
        threads: arg(&args, "--threads").and_then(|s| s.parse().ok()).unwrap_or(16),
        targets: targets.clone(),
        max_fail: arg(&args, "--max-fail").and_then(|s| s.parse().ok()).unwrap_or(6),
        time_limit_s: arg(&args, "--time-limit").and_then(|s| s.parse().ok()).unwrap_or(3600.0),
        max_execs: arg(&args, "--max-execs").and_then(|s| s.parse().ok()).unwrap_or(u64::MAX),
        split: arg(&args, "--split").and_then(|s| s.parse().ok()).unwrap_or(48),
        hang_secs: arg(&args, "--hang-secs").and_then(|s| s.parse().ok()).unwrap_or(10),
        track_states: arg(&args, "--track-states").map(|s| s != "0").unwrap_or(true),
        state_cap: arg(&args, "--state-cap").and_then(|s| s.parse().ok()).unwrap_or(400_000),
        journal: arg(&args, "--journal").map(|s| s.to_string()),
    };
    let hang_out = out_path.clone();
    let items_ref: &[PItem] = &items;
    let on_hang = move |f: &Found| {
        let s = format!(
            "{{\"binary\":{},\"cfg\":{},\"hang\":true,\"found\":[{}]}}\n",
            jstr(binary),
            jstr(cfg_name()),
            found_json(items_ref, f)
        );
        if let Some(p) = &hang_out {
            let _ = std::fs::write(p, &s);
        }
        println!("HANG item={} choices={:?}", items_ref[f.item].key, f.choices.iter().map(|c| c.0).collect::<Vec<_>>());
        let _ = std::io::stdout().flush();
    };
    let rep = explore(&items, &opts, &on_hang);

    // ---- verify every failure by replaying it twice (determinism) before reporting it
    let mut found_js = Vec::new();
    let mut machinery_error = false;
    for f in &rep.found {
        let choices: Vec<u16> = f.choices.iter().map(|c| c.0).collect();
        let (ev1, v1, d1, rec1) = replay(&items[f.item], &choices);
        let (ev2, v2, _d2, rec2) = replay(&items[f.item], &choices);
        let same = ev1 == ev2 && rec1 == rec2 && v1.len() == v2.len();
        let again = v1.iter().any(|v| v.prop == f.prop);
        if !same || d1 || !again {
            machinery_error = true;
            eprintln!("failure for {} did not reproduce deterministically (same={}, diverged={}, again={})", items[f.item].key, same, d1, again);
        }
        found_js.push(found_json(&items, f));
    }

    let mut item_js = Vec::new();
    let (mut execs, mut nodes, mut nontrivial, mut steps) = (0u64, 0u64, 0u64, 0u64);
    for (i, s) in rep.items.iter().enumerate() {
        execs += s.executions;
        nodes += s.nodes;
        nontrivial += s.nontrivial;
        steps += s.steps;
        item_js.push(format!(
            "{{\"item\":{},\"executions\":{},\"nontrivial\":{},\"nodes\":{},\"steps\":{},\"max_len\":{},\"max_devs\":{},\"outcomes\":{},\"failed\":{},\"complete\":{}}}",
            jstr(&items[i].key),
            s.executions,
            s.nontrivial,
            s.nodes,
            s.steps,
            s.max_len,
            s.max_devs,
            s.outcomes,
            s.failed,
            s.complete
        ));
    }
    // samples: re-run a few with the event log switched on
    let mut sample_js = Vec::new();
    let mut picked = 0;
    let mut seen_items = std::collections::BTreeSet::new();
    for s in &rep.samples {
        if picked >= 4 || !seen_items.insert(s.item) {
            continue;
        }
        let choices: Vec<u16> = s.choices.iter().map(|c| c.0).collect();
        let (ev, _v, _d, rec) = replay(&items[s.item], &choices);
        let evs: Vec<String> = ev.iter().map(|l| jstr(l)).collect();
        sample_js.push(format!("{{\"item\":{},\"choices\":{},\"events\":[{}]}}", jstr(&items[s.item].key), choices_json(&rec), evs.join(",")));
        picked += 1;
    }
    let others: Vec<String> = (0..NPROP).filter(|&p| rep.other_props[p] > 0).map(|p| format!("\"C{:02}\":{}", p, rep.other_props[p])).collect();
    let s = format!(
        "{{\"binary\":{},\"cfg\":{},\"hang\":false,\"complete\":{},\"stop_reason\":{},\"wall_s\":{:.3},\"executions\":{},\"nontrivial\":{},\"nodes\":{},\"steps\":{},\"abstract_states\":{},\"states_capped\":{},\"diverged\":{},\"machinery_error\":{},\"violating_executions_by_property\":{{{}}},\"items\":[{}],\"found\":[{}],\"samples\":[{}]}}\n",
        jstr(binary),
        jstr(cfg_name()),
        rep.complete,
        jstr(&rep.stop_reason),
        rep.wall_s,
        execs,
        nontrivial,
        nodes,
        steps,
        rep.abstract_states,
        rep.states_capped,
        rep.diverged,
        machinery_error || rep.diverged > 0,
        others.join(","),
        item_js.join(","),
        found_js.join(","),
        sample_js.join(",")
    );
    match &out_path {
        Some(p) => std::fs::write(p, s).expect("write out"),
        None => print!("{}", s),
    }
    if machinery_error || rep.diverged > 0 {
        std::process::exit(2);
    }
    std::process::exit(if rep.found.is_empty() { 0 } else { 1 });
}

// ---------------------------------------------------------------------------------------
// helpers shared by the family drivers
// ---------------------------------------------------------------------------------------

/// Per-child roles. `nv` / `al` / `eg` are bit masks over the first 64 positions; `nvp` / `alp` are
/// dot separated position lists for wider containers (`nvp=0.64.199`).
/// The shape of the container handed to the crate is part of the input: Vecs with an odd number of children (and
/// every Vec when `sc=1`) carry spare capacity (len < capacity), the others are exact (`sc=0` forces exact).
pub fn shape_vec<T>(item: &PItem, v: Vec<T>) -> Vec<T> {
    let spare = match item.kv.get("sc").map(|s| s.as_str()) {
        Some("1") => true,
        Some("0") => false,
        _ => v.len() % 2 == 1,
    };
    if !spare {
        return v;
    }
    let mut out = Vec::with_capacity(v.len() + 5);
    out.extend(v);
    out
}

pub fn spec_for(item: &PItem, slot: usize) -> Spec {
    let bit = |name: &str| -> bool { slot < 64 && (item.u(name, 0) >> slot) & 1 == 1 };
    let pos = |name: &str| -> bool { item.s(name).split('.').filter(|s| !s.is_empty()).any(|s| s.parse::<usize>().ok() == Some(slot)) };
    Spec { never: bit("nv") || pos("nvp"), always: bit("al") || pos("alp"), can_err: item.u("err", 0) != 0, eager: bit("eg"), lazy: false }
}

/// Expands to a `match` over the tuple arities 1..=12, binding `$t` to a tuple built from the
/// first `$n` elements of the vector `$v`.
#[macro_export]
macro_rules! with_tuple {
    ($n:expr, $v:expr, $t:ident => $body:expr) => {{
        let mut it = $v.into_iter();
        #[allow(unused_mut, unused_variables)]
        let mut nx = move || it.next().expect("not enough children");
        match $n {
            1 => { let $t = (nx(),); $body }
            2 => { let $t = (nx(), nx()); $body }
            3 => { let $t = (nx(), nx(), nx()); $body }
            4 => { let $t = (nx(), nx(), nx(), nx()); $body }
            5 => { let $t = (nx(), nx(), nx(), nx(), nx()); $body }
            6 => { let $t = (nx(), nx(), nx(), nx(), nx(), nx()); $body }
            7 => { let $t = (nx(), nx(), nx(), nx(), nx(), nx(), nx()); $body }
            8 => { let $t = (nx(), nx(), nx(), nx(), nx(), nx(), nx(), nx()); $body }
            9 => { let $t = (nx(), nx(), nx(), nx(), nx(), nx(), nx(), nx(), nx()); $body }
            10 => { let $t = (nx(), nx(), nx(), nx(), nx(), nx(), nx(), nx(), nx(), nx()); $body }
            11 => { let $t = (nx(), nx(), nx(), nx(), nx(), nx(), nx(), nx(), nx(), nx(), nx()); $body }
            12 => { let $t = (nx(), nx(), nx(), nx(), nx(), nx(), nx(), nx(), nx(), nx(), nx(), nx()); $body }
            other => panic!("unsupported tuple arity {}", other),
        }
    }};
}

/// Same for arrays of the fixed sizes the suites use.
#[macro_export]
macro_rules! with_array {
    ($n:expr, $v:expr, $a:ident => $body:expr) => {{
        macro_rules! arm {
            ($N:literal) => {{
                let $a: [_; $N] = match $v.try_into() {
                    Ok(a) => a,
                    Err(_) => panic!("array size mismatch"),
                };
                $body
            }};
        }
        match $n {
            0 => arm!(0),
            1 => arm!(1),
            2 => arm!(2),
            3 => arm!(3),
            4 => arm!(4),
            5 => arm!(5),
            8 => arm!(8),
            12 => arm!(12),
            23 => arm!(23),
            65 => arm!(65),
            other => panic!("unsupported array size {}", other),
        }
    }};
}
