//! Concurrent streams: `co()` / `Vec::into_co_stream` sources, adapter stacks over
//! {map, enumerate, take, limit} of depth <= 3, terminals for_each / try_for_each /
//! collect::<Vec<_>> / collect::<Result<Vec<_>, E>>, checked against a positional reference
//! model (see DESIGN.md §6 C13 - C15).
//!
//! Item keys: `src=stream|vec, l=<source items>, stack=<letters m e t l>, tn=<take n>,
//! lm=<limit m, 0 = None>, term=for_each|try_for_each|collect|collect_result, wp=<pending budget
//! of work futures>, wnv=<bitmask over work futures (creation order) that never complete>`.

use crate::*;
use futures_concurrency::concurrent_stream::{ConcurrentStream, Consumer, ConsumerState, IntoConcurrentStream};
use futures_concurrency::stream::StreamExt as _;
use futures_core::Stream;
use std::cell::RefCell;
use std::future::Future;
use std::marker::PhantomData;
use std::num::NonZeroUsize;
use std::pin::Pin;
use std::task::{Context, Poll};

const MAP_TAG: u32 = 1 << 16;
const TERMINAL: u8 = 200;
const VEC_SRC: u32 = u32::MAX - 1;

#[derive(Clone, Copy, PartialEq, Eq, Debug)]
pub enum Op {
    Map,
    Enum,
    Take(usize),
    Limit(usize),
}

#[derive(Clone, Copy, PartialEq, Eq, Debug)]
pub enum Term {
    ForEach,
    TryForEach,
    Collect,
    CollectResult,
}

#[derive(Default)]
pub struct CoLog {
    /// closure futures answer Pending on their first poll by default (wlz=1)
    pub lazy: bool,
    /// collect through a consumer written by the caller (the public `Consumer` trait): 0 = the crate's own,
    /// 1 = a synchronous one whose progress() answers Empty, 2 = the same with a progress() that pends forever
    pub cons: u8,
    /// (stage, source position, work child)
    pub inv: Vec<(u8, i32, u32)>,
    pub stack: Vec<Op>,
    pub term: Option<Term>,
    pub eff_limit: usize,
    pub src_child: u32,
    pub vec_len: usize,
    pub wp: u8,
    pub wnv: u32,
    pub home: u8,
    pub created: u32,
}

thread_local! {
    static CO: RefCell<CoLog> = RefCell::new(CoLog::default());
}

fn co<R>(f: impl FnOnce(&mut CoLog) -> R) -> R {
    CO.with(|c| f(&mut c.borrow_mut()))
}

pub trait IntoOut {
    fn into_out(self) -> Out;
}
impl IntoOut for Out {
    fn into_out(self) -> Out {
        self
    }
}
impl<T: IntoOut> IntoOut for (usize, T) {
    fn into_out(self) -> Out {
        Out::L(vec![Out::N(self.0 as u32), self.1.into_out()])
    }
}

/// Walk a normalised item: returns (source position or -1, enumerate indexes seen, map stages seen)
fn analyse(o: &Out, src_child: u32, idx: &mut Vec<u32>, maps: &mut Vec<(u8, u32)>) -> i32 {
    match o {
        Out::V(v) => with_drops(|d| match d.val_origin.get(v.id as usize) {
            Some(&(c, s)) if c == src_child => s as i32,
            _ => -1,
        }),
        Out::N(_) => -1,
        Out::L(l) => match l.first() {
            Some(Out::N(t)) if *t >= MAP_TAG && l.len() == 3 => {
                let vid = match &l[2] {
                    Out::V(v) => v.id,
                    _ => NONE,
                };
                maps.push(((*t - MAP_TAG) as u8, vid));
                analyse(&l[1], src_child, idx, maps)
            }
            Some(Out::N(i)) if l.len() == 2 => {
                idx.push(*i);
                analyse(&l[1], src_child, idx, maps)
            }
            _ => -1,
        },
    }
}

/// Called by every closure: log the invocation, check the item's shape, create the work child.
fn invoked(stage: u8, item: &Out, can_err: bool) -> u32 {
    let (src_child, home, wp, wnv, ordinal, eff_limit) = co(|c| {
        c.created += 1;
        (c.src_child, c.home, c.wp, c.wnv, c.created - 1, c.eff_limit)
    });
    let mut idx = Vec::new();
    let mut maps = Vec::new();
    let seq = analyse(item, src_child, &mut idx, &mut maps);
    let spec = Spec { never: ordinal < 32 && (wnv >> ordinal) & 1 == 1, always: false, can_err, eager: false, lazy: co(|c| c.lazy) };
    let id = with(|w| {
        if seq < 0 {
            w.violate(15, || format!("closure of stage {} was handed something that is not (derived from) a source item", stage));
        }
        for i in &idx {
            if *i as i32 != seq {
                w.violate(15, || format!("enumerate paired source item {} with index {}", seq, i));
            }
        }
        // concurrency limit (C13): closure futures of for_each created and not yet completed
        if stage == TERMINAL && home == 13 {
            let live = CO.with(|c| {
                c.borrow().inv.iter().filter(|e| e.0 == TERMINAL).filter(|e| {
                    let r = &w.children[e.2 as usize];
                    !r.finished && with_drops(|d| d.children[e.2 as usize] == 0)
                }).count()
            });
            if live + 1 > eff_limit {
                w.violate(13, || format!("closure invoked for source item {} while {} closure futures are in flight (limit {})", seq, live, eff_limit));
            }
        }
        let slot = w.combs[0].children.len() as u16;
        let id = w.new_child(0, slot, false, false, spec);
        if !spec.never {
            w.children[id as usize].pend_left = wp;
        }
        w.ev(Ev::Note(0x8000_0000 | ((stage as u32) << 16) | (seq as u32 & 0xffff)));
        id
    });
    co(|c| c.inv.push((stage, seq, id)));
    id
}

macro_rules! work_type {
    ($name:ident, $out:ty, |$this:ident, $o:ident, $err:ident| $ready:expr) => {
        pub struct $name {
            id: u32,
            stage: u8,
            item: Option<Out>,
            /// the futures returned by the closures are !Unpin: once polled they must not be moved
            _pin: core::marker::PhantomPinned,
        }
        impl Drop for $name {
            fn drop(&mut self) {
                child_dropped(self.id);
            }
        }
        impl Future for $name {
            type Output = $out;
            fn poll(self: Pin<&mut Self>, cx: &mut Context<'_>) -> Poll<$out> {
                // SAFETY: nothing is moved out of the pinned value (the item is an Option that is taken, not the struct).
                let $this = unsafe { self.get_unchecked_mut() };
                let addr = $this as *const Self as usize;
                with(|w| w.check_pinned($this.id, addr));
                match leaf_poll($this.id, cx.waker()) {
                    LeafRes::Ready($o, $err) => Poll::Ready($ready),
                    _ => Poll::Pending,
                }
            }
        }
    };
}

work_type!(Work, Out, |this, o, _e| Out::L(vec![Out::N(MAP_TAG + this.stage as u32), this.item.take().expect("polled after completion"), o]));
work_type!(WorkUnit, (), |this, o, _e| {
    drop(this.item.take());
    drop(o);
});
work_type!(WorkTry, Result<(), Out>, |this, o, e| {
    drop(this.item.take());
    if e {
        Err(o)
    } else {
        drop(o);
        Ok(())
    }
});
work_type!(WorkRes, Result<Out, Out>, |this, o, e| {
    let item = this.item.take().expect("polled after completion");
    if e {
        drop(item);
        Err(o)
    } else {
        Ok(Out::L(vec![Out::N(MAP_TAG + this.stage as u32), item, o]))
    }
});

fn map_fn<T: IntoOut>(stage: u8) -> impl Fn(T) -> Work + Clone {
    move |t: T| {
        let item = t.into_out();
        let id = invoked(stage, &item, false);
        Work { _pin: core::marker::PhantomPinned, id, stage, item: Some(item) }
    }
}
fn unit_fn<T: IntoOut>() -> impl Fn(T) -> WorkUnit + Clone {
    move |t: T| {
        let item = t.into_out();
        let id = invoked(TERMINAL, &item, false);
        WorkUnit { _pin: core::marker::PhantomPinned, id, stage: TERMINAL, item: Some(item) }
    }
}
fn try_fn<T: IntoOut>() -> impl Fn(T) -> WorkTry + Clone {
    move |t: T| {
        let item = t.into_out();
        let id = invoked(TERMINAL, &item, true);
        WorkTry { _pin: core::marker::PhantomPinned, id, stage: TERMINAL, item: Some(item) }
    }
}
fn res_fn<T: IntoOut>() -> impl Fn(T) -> WorkRes + Clone {
    move |t: T| {
        let item = t.into_out();
        let id = invoked(TERMINAL, &item, true);
        WorkRes { _pin: core::marker::PhantomPinned, id, stage: TERMINAL, item: Some(item) }
    }
}

/// The scripted source stream; additionally checks C14's "no further item is taken after the
/// first error was observed".
pub struct Src(SLeaf);
impl Stream for Src {
    type Item = Out;
    fn poll_next(self: Pin<&mut Self>, cx: &mut Context<'_>) -> Poll<Option<Out>> {
        let me = self.get_mut();
        let r = Pin::new(&mut me.0).poll_next(cx);
        if let Poll::Ready(Some(_)) = &r {
            let home = co(|c| c.home);
            if home == 14 {
                with(|w| {
                    let failed = w.children.iter().position(|r| r.finished && r.is_err);
                    if let Some(f) = failed {
                        w.violate(14, || format!("an item was taken from the source after work future {} had resolved to Err", f));
                    }
                });
            }
        }
        r
    }
    fn size_hint(&self) -> (usize, Option<usize>) {
        self.0.size_hint()
    }
}

/// A consumer written by the caller: it awaits every future inside `send`, holds nothing in between (so `send`
/// answers `Empty`) and hands the outputs over in `flush`.
pub struct SyncCollect<T> {
    out: Vec<T>,
    pend: bool,
}
impl<T, Fut: Future<Output = T>> Consumer<T, Fut> for SyncCollect<T> {
    type Output = Vec<T>;
    async fn send(self: Pin<&mut Self>, fut: Fut) -> ConsumerState {
        let item = fut.await;
        // SAFETY: `out` holds finished outputs, nothing in it is structurally pinned.
        unsafe { self.get_unchecked_mut() }.out.push(item);
        ConsumerState::Empty
    }
    async fn progress(self: Pin<&mut Self>) -> ConsumerState {
        if self.pend {
            std::future::pending::<()>().await;
        }
        ConsumerState::Empty
    }
    async fn flush(self: Pin<&mut Self>) -> Vec<T> {
        // SAFETY: as above.
        std::mem::take(&mut unsafe { self.get_unchecked_mut() }.out)
    }
}

fn terminal<S>(s: S, term: Term) -> BoxFut
where
    S: ConcurrentStream + 'static,
    S::Item: IntoOut + 'static,
    S::Future: 'static,
{
    match term {
        Term::Collect => Box::pin(async move {
            let cons = co(|c| c.cons);
            let v: Vec<S::Item> = if cons == 0 { s.collect().await } else { s.drive(SyncCollect { out: Vec::new(), pend: cons == 2 }).await };
            Ret::Plain(Out::L(v.into_iter().map(IntoOut::into_out).collect()))
        }),
        Term::ForEach => Box::pin(async move {
            s.for_each(unit_fn::<S::Item>()).await;
            Ret::Plain(Out::L(Vec::new()))
        }),
        Term::TryForEach => Box::pin(async move {
            match s.try_for_each(try_fn::<S::Item>()).await {
                Ok(()) => Ret::Ok(Out::L(Vec::new())),
                Err(e) => Ret::Err(e),
            }
        }),
        Term::CollectResult => Box::pin(async move {
            let r: Result<Vec<Out>, Out> = s.map(res_fn::<S::Item>()).collect().await;
            match r {
                Ok(v) => Ret::Ok(Out::L(v)),
                Err(e) => Ret::Err(e),
            }
        }),
    }
}

pub trait Go {
    fn go<S>(s: S, ops: &[Op], stage: u8, term: Term) -> BoxFut
    where
        S: ConcurrentStream + 'static,
        S::Item: IntoOut + 'static,
        S::Future: 'static;
}
pub struct Z;
pub struct Sx<D>(PhantomData<D>);
impl Go for Z {
    fn go<S>(s: S, ops: &[Op], _stage: u8, term: Term) -> BoxFut
    where
        S: ConcurrentStream + 'static,
        S::Item: IntoOut + 'static,
        S::Future: 'static,
    {
        assert!(ops.is_empty(), "adapter stack deeper than this driver was built for");
        terminal(s, term)
    }
}
impl<D: Go> Go for Sx<D> {
    fn go<S>(s: S, ops: &[Op], stage: u8, term: Term) -> BoxFut
    where
        S: ConcurrentStream + 'static,
        S::Item: IntoOut + 'static,
        S::Future: 'static,
    {
        match ops.split_first() {
            None => terminal(s, term),
            Some((Op::Map, rest)) => D::go(s.map(map_fn::<S::Item>(stage)), rest, stage + 1, term),
            Some((Op::Enum, rest)) => D::go(s.enumerate(), rest, stage + 1, term),
            Some((Op::Take(n), rest)) => D::go(s.take(*n), rest, stage + 1, term),
            Some((Op::Limit(m), rest)) => D::go(s.limit(NonZeroUsize::new(*m)), rest, stage + 1, term),
        }
    }
}

pub struct CoSubject {
    fut: Option<BoxFut>,
}

impl Subject for CoSubject {
    fn quiescent_verdict(&self) -> Option<Result<(), String>> {
        Some(CoSubject::pending_verdict())
    }
    fn poll(&mut self, cx: &mut Context<'_>) -> Polled {
        match self.fut.as_mut().unwrap().as_mut().poll(cx) {
            Poll::Pending => Polled::Pending,
            Poll::Ready(r) => {
                check_done(&r);
                Polled::Done(r)
            }
        }
    }
}

impl CoSubject {
    /// Is it legitimate for the operation to sit Pending with no wake-up outstanding?
    fn pending_verdict() -> Result<(), String> {
        let (stack, src_child, home) = co(|c| (c.stack.clone(), c.src_child, c.home));
        let n_min = stack.iter().filter_map(|o| if let Op::Take(n) = o { Some(*n) } else { None }).min();
        with(|w| {
            let c = &w.combs[0];
            if home == 14 {
                if let Some(f) = c.children.iter().copied().find(|&ch| w.children[ch as usize].finished && w.children[ch as usize].is_err) {
                    return Err(format!("fallible concurrent-stream operation is still Pending with no wake-up outstanding although work future {} has resolved to Err", f));
                }
            }
            let blocked = |ch: u32| {
                let r = &w.children[ch as usize];
                !r.finished && (r.spec.never || r.seq >= r.never_after)
            };
            let work_blocked = c.children.iter().copied().any(|ch| ch != src_child && blocked(ch));
            if work_blocked {
                return Ok(());
            }
            let work_unfinished = c.children.iter().copied().filter(|&ch| ch != src_child && !w.children[ch as usize].finished).count();
            if src_child != VEC_SRC && blocked(src_child) {
                // waiting for a source that will never deliver again is fine - unless take(n) already has its n items
                let pulled = w.children[src_child as usize].seq as usize;
                return match n_min {
                    Some(n) if pulled >= n && work_unfinished == 0 => Err(format!(
                        "take({}) has been handed {} source items and every work future has completed, but the operation still waits for the source", n, pulled)),
                    _ => Ok(()),
                };
            }
            Err("concurrent-stream operation is Pending with no wake-up outstanding although none of its children is blocked".to_string())
        })
    }
}

/// Reference model at the final result.
fn check_done(ret: &Ret) {
    let (stack, term, src_child, vec_len, home, inv) = co(|c| (c.stack.clone(), c.term.unwrap(), c.src_child, c.vec_len, c.home, c.inv.clone()));
    let has_take = stack.iter().any(|o| matches!(o, Op::Take(_)));
    let n_min = stack.iter().filter_map(|o| if let Op::Take(n) = o { Some(*n) } else { None }).min();
    with(|w| {
        // how many items did the source hand out, and has it ended?
        let (pulled, ended) = if src_child == VEC_SRC {
            (usize::MAX, true)
        } else {
            let r = &w.children[src_child as usize];
            (r.seq as usize, r.finished && r.last == Ans::End)
        };
        let total = if src_child == VEC_SRC { Some(vec_len) } else if ended { Some(pulled) } else { None };
        let failed: Vec<(u32, u64)> = w.children.iter().enumerate().filter(|(_, r)| r.finished && r.is_err).map(|(i, r)| (i as u32, r.out_sig)).collect();
        let is_try = matches!(term, Term::TryForEach | Term::CollectResult);
        let tprop: u8 = if has_take { 15 } else { home };

        if is_try {
            match ret {
                Ret::Err(e) => {
                    let s = e.sig();
                    if !failed.iter().any(|f| f.1 == s) {
                        w.violate(14, || "resolved to an Err that no work future returned".to_string());
                    }
                }
                _ => {
                    if let Some(f) = failed.first() {
                        let f = f.0;
                        w.violate(14, || format!("work future {} resolved to Err but the operation resolved to Ok", f));
                    }
                }
            }
        }
        let ok = !matches!(ret, Ret::Err(_));
        // the set of source items that must have been processed
        let expect: Option<usize> = match (n_min, total) {
            (Some(n), Some(t)) => Some(n.min(t)),
            (Some(n), None) => Some(n),
            (None, Some(t)) => Some(t),
            (None, None) => None,
        };
        if ok {
            if n_min.is_none() && total.is_none() {
                w.violate(home, || "resolved although the source has not ended".to_string());
            }
            if let (Some(n), None) = (n_min, total) {
                if pulled < n {
                    w.violate(15, || format!("take({}) finished after only {} source items although the source has not ended", n, pulled));
                }
            }
        }
        // closure stages: map stages by position in the stack, plus the terminal closure
        let mut stages: Vec<u8> = stack.iter().enumerate().filter(|(_, o)| matches!(o, Op::Map)).map(|(i, _)| i as u8).collect();
        if !matches!(term, Term::Collect) {
            stages.push(TERMINAL);
        }
        for st in &stages {
            let mut seen: Vec<i32> = inv.iter().filter(|e| e.0 == *st).map(|e| e.1).collect();
            seen.sort();
            let prop = if *st == TERMINAL { tprop } else { 15 };
            for pair in seen.windows(2) {
                if pair[0] == pair[1] {
                    let s = pair[0];
                    let p2 = if *st == TERMINAL { home } else { 15 };
                    w.violate(p2, || format!("closure of stage {} was invoked more than once for source item {}", st, s));
                }
            }
            if let Some(exp) = expect {
                if let Some(&m) = seen.last() {
                    if m as usize >= exp {
                        w.violate(prop, || format!("closure of stage {} was invoked for source item {} but only the first {} items are to be processed", st, m, exp));
                    }
                }
                if ok {
                    seen.dedup();
                    if seen.len() != exp {
                        let n = seen.len();
                        w.violate(prop, || format!("closure of stage {} was invoked for {} distinct source items, expected exactly the first {}", st, n, exp));
                    }
                }
            }
        }
        // every work future has completed (Ok result): structured concurrency
        if ok {
            for e in &inv {
                let r = &w.children[e.2 as usize];
                if !r.finished {
                    let (c, s) = (e.2, e.1);
                    w.violate(home, || format!("resolved although work future {} (source item {}) has not completed", c, s));
                    break;
                }
            }
        }
        // collected output: exactly the images of the processed items
        if ok && matches!(term, Term::Collect | Term::CollectResult) {
            let list = match ret.out() {
                Out::L(l) => l,
                _ => {
                    w.violate(15, || "collect did not return a list".to_string());
                    return;
                }
            };
            let mut seqs: Vec<i32> = Vec::new();
            for o in list {
                let mut idx = Vec::new();
                let mut maps = Vec::new();
                let s = analyse(o, src_child, &mut idx, &mut maps);
                if s < 0 {
                    w.violate(15, || "collected an element that is not derived from a source item".to_string());
                }
                for i in &idx {
                    if *i as i32 != s {
                        w.violate(15, || format!("collected element pairs source item {} with enumerate index {}", s, i));
                    }
                }
                // every map stage contributed the output of the future its closure returned for this item
                let mut want: Vec<u8> = stack.iter().enumerate().filter(|(_, o)| matches!(o, Op::Map)).map(|(i, _)| i as u8).collect();
                if matches!(term, Term::CollectResult) {
                    want.push(TERMINAL);
                }
                let mut got: Vec<u8> = maps.iter().map(|m| m.0).collect();
                got.sort();
                if got != want {
                    w.violate(15, || format!("collected element for source item {} went through map stages {:?}, expected {:?}", s, got, want));
                }
                for (st, vid) in &maps {
                    let child = inv.iter().find(|e| e.0 == *st && e.1 == s).map(|e| e.2);
                    let origin = with_drops(|d| d.val_origin.get(*vid as usize).map(|o| o.0));
                    if child.is_none() || origin != child {
                        w.violate(15, || format!("collected element for source item {} does not carry the output of the future returned by the stage-{} closure for that item", s, st));
                    }
                }
                seqs.push(s);
            }
            seqs.sort();
            if let Some(exp) = expect {
                let want: Vec<i32> = (0..exp as i32).collect();
                if seqs != want {
                    w.violate(15, || format!("collect returned the items {:?}, expected exactly one element for each of the first {} source items", seqs, exp));
                }
            }
        }
    });
}

fn parse_stack(item: &PItem) -> Vec<Op> {
    let tn = item.u("tn", 1);
    let lm = item.u("lm", 1);
    // a second take / limit in the same stack uses tn2 / lm2 if given
    let (tn2, lm2) = (item.u("tn2", tn), item.u("lm2", lm));
    let (mut nt, mut nl) = (0, 0);
    item.s("stack")
        .chars()
        .map(|c| match c {
            'm' => Op::Map,
            'e' => Op::Enum,
            't' => {
                nt += 1;
                Op::Take(if nt == 1 { tn } else { tn2 })
            }
            'l' => {
                nl += 1;
                Op::Limit(if nl == 1 { lm } else { lm2 })
            }
            other => panic!("unknown adapter `{}`", other),
        })
        .collect()
}

pub fn runner(item: &PItem) {
    let term = match item.s("term") {
        "for_each" => Term::ForEach,
        "try_for_each" => Term::TryForEach,
        "collect" => Term::Collect,
        "collect_result" => Term::CollectResult,
        other => panic!("unknown terminal {}", other),
    };
    let home: u8 = match term {
        Term::ForEach => 13,
        Term::TryForEach | Term::CollectResult => 14,
        Term::Collect => 15,
    };
    let stack = parse_stack(item);
    let eff_limit = stack.iter().rev().find_map(|o| if let Op::Limit(m) = o { Some(if *m == 0 { usize::MAX } else { *m }) } else { None }).unwrap_or(usize::MAX);
    let k = with(|w| w.new_comb(Fam::Co, NONE, false, false, home));
    debug_assert_eq!(k, 0);
    let l = item.u("l", 2);
    let vec_src = item.s("src") == "vec";
    let src_child = if vec_src { VEC_SRC } else { with(|w| w.new_child(0, 0, true, false, spec_for(item, 0))) };
    if !vec_src {
        // `sna=k`: the source stays Pending forever once it has produced k items
        if let Some(k) = item.kv.get("sna").and_then(|v| v.parse::<u16>().ok()) {
            with(|w| w.children[src_child as usize].never_after = k);
        }
    }
    co(|c| {
        *c = CoLog { lazy: item.u("wlz", 0) != 0, cons: item.u("cons", 0) as u8, inv: Vec::new(), stack: stack.clone(), term: Some(term), eff_limit, src_child, vec_len: l, wp: item.u("wp", 1) as u8, wnv: item.u("wnv", 0) as u32, home, created: 0 };
    });
    let fut: BoxFut = if vec_src {
        let v: Vec<Out> = (0..l)
            .map(|i| {
                let val = with_drops(|d| {
                    let id = d.vals.len() as u32;
                    d.vals.push(0);
                    d.val_returned.push(false);
                    d.val_origin.push((VEC_SRC, i as u16));
                    id
                });
                Out::V(Val { id: val, canary: val ^ 0x5AFE_C0DE })
            })
            .collect();
        <Sx<Sx<Z>> as Go>::go(crate::shape_vec(item, v).into_co_stream(), &stack, 0, term)
    } else {
        <Sx<Sx<Sx<Z>>> as Go>::go(Src(SLeaf { id: src_child }).co(), &stack, 0, term)
    };
    run(Box::new(CoSubject { fut: Some(fut) }));
}
