//! FutureGroup / StreamGroup (plain and `keyed()`): operation histories over insert, remove,
//! reserve, extend, poll, wake-ups and drop, checked against a set-view reference model.
//!
//! The reference model is the harness's own list of live members (`World::combs[0].children`,
//! maintained by `insert` / `remove` here and by the family model on yield / end) together with
//! the list of every key `insert` ever returned.

use crate::*;
use futures_concurrency::future::future_group;
use futures_concurrency::future::FutureGroup;
use futures_concurrency::stream::stream_group;
use futures_concurrency::stream::StreamGroup;
use futures_core::Stream;
use std::pin::Pin;
use std::task::{Context, Poll};

pub trait GroupApi {
    type Key: Copy + Eq + std::fmt::Debug;
    type Member;
    const HAS_EXTEND: bool;
    fn g_len(&self) -> usize;
    fn g_is_empty(&self) -> bool;
    fn g_capacity(&self) -> usize;
    fn g_contains(&mut self, k: Self::Key) -> bool;
    fn g_remove(&mut self, k: Self::Key) -> bool;
    fn g_reserve(&mut self, n: usize);
    fn g_insert(&mut self, m: Self::Member) -> Self::Key;
    fn g_extend(&mut self, ms: Vec<Self::Member>, nohint: bool);
    fn g_poll(&mut self, cx: &mut Context<'_>) -> Poll<Option<(Option<Self::Key>, Out)>>;
}

macro_rules! group_api {
    ($ty:ty, $key:ty, $member:ty, $ext:expr, |$g:ident, $ms:ident| $extend:expr, |$s:ident, $cx:ident| $poll:expr) => {
        impl GroupApi for $ty {
            type Key = $key;
            type Member = $member;
            const HAS_EXTEND: bool = $ext;
            fn g_len(&self) -> usize {
                self.len()
            }
            fn g_is_empty(&self) -> bool {
                self.is_empty()
            }
            fn g_capacity(&self) -> usize {
                self.capacity()
            }
            fn g_contains(&mut self, k: $key) -> bool {
                self.contains_key(k)
            }
            fn g_remove(&mut self, k: $key) -> bool {
                self.remove(k)
            }
            fn g_reserve(&mut self, n: usize) {
                self.reserve(n)
            }
            fn g_insert(&mut self, m: $member) -> $key {
                self.insert(m)
            }
            fn g_extend(&mut self, $ms: Vec<$member>, nohint: bool) {
                let $g = self;
                if nohint {
                    // an iterator whose size_hint is (0, None): nothing can be reserved up front
                    let mut it = $ms.into_iter();
                    let $ms = core::iter::from_fn(move || it.next());
                    $extend
                } else {
                    $extend
                }
            }
            fn g_poll(&mut self, $cx: &mut Context<'_>) -> Poll<Option<(Option<$key>, Out)>> {
                let $s = Pin::new(self);
                $poll
            }
        }
    };
}

group_api!(FutureGroup<Node>, future_group::Key, Node, true,
    |g, ms| g.extend(ms),
    |s, cx| s.poll_next(cx).map(|o| o.map(|v| (None, v))));
group_api!(future_group::Keyed<Node>, future_group::Key, Node, true,
    |g, ms| { let inner: &mut FutureGroup<Node> = &mut *g; inner.extend(ms) },
    |s, cx| s.poll_next(cx).map(|o| o.map(|(k, v)| (Some(k), v))));
group_api!(StreamGroup<SNode>, stream_group::Key, SNode, false,
    |_g, _ms| unreachable!(),
    |s, cx| s.poll_next(cx).map(|o| o.map(|v| (None, v))));
group_api!(stream_group::Keyed<SNode>, stream_group::Key, SNode, false,
    |_g, _ms| unreachable!(),
    |s, cx| s.poll_next(cx).map(|o| o.map(|(k, v)| (Some(k), v))));

const OP_INSERT: u16 = 0;
const OP_EXTEND: u16 = 2;
const OP_RESERVE0: u16 = 3; // 3,4,5 = reserve(0), reserve(1), reserve(3)
const OP_REMOVE: u16 = 16; // 16 + index into known keys

pub struct GroupSubject<G: GroupApi> {
    g: Option<G>,
    home: u8,
    is_stream: bool,
    keys: Vec<G::Key>,
    made: usize,
    max_members: usize,
    rm: bool,
    rs: bool,
    ext: bool,
    /// extend / from_iter are fed an iterator without a size hint (ext=2)
    nohint: bool,
    /// live members whose key the harness does not know (extend / from_iter)
    specs: Vec<Spec>,
    mk: fn(u32) -> G::Member,
    /// members (by creation ordinal) that stay Pending forever after `na` items
    nam: usize,
    na: u16,
}

impl<G: GroupApi> GroupSubject<G> {
    fn slot_of(&mut self, k: G::Key) -> u16 {
        match self.keys.iter().position(|x| *x == k) {
            Some(i) => i as u16,
            None => {
                self.keys.push(k);
                (self.keys.len() - 1) as u16
            }
        }
    }

    fn new_member(&mut self, unknown: bool) -> (u32, G::Member) {
        let spec = self.specs.get(self.made).copied().unwrap_or_default();
        let ordinal = self.made;
        let (nam, na) = (self.nam, self.na);
        self.made += 1;
        let is_stream = self.is_stream;
        let id = with(|w| {
            let id = w.new_child(0, 0, is_stream, false, spec);
            if is_stream && ordinal < 64 && (nam >> ordinal) & 1 == 1 {
                w.children[id as usize].never_after = na;
            }
            if unknown {
                w.children[id as usize].role_tag = TAG_UNKNOWN_SLOT;
            }
            id
        });
        (id, (self.mk)(id))
    }

    pub fn insert_known(&mut self) {
        let (id, m) = self.new_member(false);
        self.insert_member(id, m);
    }

    pub fn insert_member(&mut self, id: u32, m: G::Member) {
        let home = self.home;
        let live_before: Vec<u16> = with(|w| w.combs[0].children.iter().filter(|&&c| c != id && w.children[c as usize].role_tag != TAG_UNKNOWN_SLOT).map(|&c| w.children[c as usize].slot).collect());
        let k = self.g.as_mut().unwrap().g_insert(m);
        let slot = self.slot_of(k);
        with(|w| {
            w.set_slot(id, slot);
            w.ev(Ev::Op(OP_INSERT as u8, id, slot as u32));
            if live_before.contains(&slot) {
                w.violate(home, || format!("insert returned key {:?} (slot {}) which a live member already holds", k, slot));
            }
        });
    }

    fn view_check(&mut self, when: &str) {
        let home = self.home;
        let g = self.g.as_mut().unwrap();
        let (live, live_slots, unknown): (usize, Vec<u16>, usize) = with(|w| {
            let ch = &w.combs[0].children;
            let unknown = ch.iter().filter(|&&c| w.children[c as usize].role_tag == TAG_UNKNOWN_SLOT).count();
            let slots = ch.iter().filter(|&&c| w.children[c as usize].role_tag != TAG_UNKNOWN_SLOT).map(|&c| w.children[c as usize].slot).collect();
            (ch.len(), slots, unknown)
        });
        let len = g.g_len();
        let empty = g.g_is_empty();
        let cap = g.g_capacity();
        let mut msgs: Vec<String> = Vec::new();
        if len != live {
            msgs.push(format!("{}: len() is {} but {} members are inserted and neither yielded/ended nor removed", when, len, live));
        }
        if empty != (live == 0) {
            msgs.push(format!("{}: is_empty() is {} with {} live members", when, empty, live));
        }
        if cap < len {
            msgs.push(format!("{}: capacity() {} is below len() {}", when, cap, len));
        }
        for (i, k) in self.keys.iter().enumerate() {
            let has = g.g_contains(*k);
            let want = live_slots.contains(&(i as u16));
            if want && !has {
                msgs.push(format!("{}: contains_key({:?}) is false for a live member", when, k));
            }
            if !want && has && unknown == 0 {
                msgs.push(format!("{}: contains_key({:?}) is true although no live member holds that key", when, k));
            }
        }
        // a StreamGroup member is dropped in the poll in which it returned None
        if self.is_stream {
            let ended: Vec<u32> = with(|w| w.children.iter().enumerate().filter(|(_, r)| r.owner == 0 && r.finished && r.last == Ans::End).map(|(i, _)| i as u32).collect());
            with_drops(|d| {
                for e in ended {
                    if d.children[e as usize] == 0 {
                        msgs.push(format!("{}: member {} returned None but has not been dropped", when, e));
                    }
                }
            });
        }
        if !msgs.is_empty() {
            with(|w| {
                for m in msgs {
                    w.violate(home, || m);
                }
            });
        }
    }
}

impl<G: GroupApi> Subject for GroupSubject<G> {
    fn poll(&mut self, cx: &mut Context<'_>) -> Polled {
        match self.g.as_mut().unwrap().g_poll(cx) {
            Poll::Pending => Polled::Pending,
            Poll::Ready(None) => Polled::End,
            Poll::Ready(Some((k, o))) => {
                let key = match k {
                    Some(k) => self.slot_of(k) as u32,
                    None => NONE,
                };
                Polled::Item(o, key)
            }
        }
    }
    fn reusable(&self) -> bool {
        true
    }
    fn ops(&mut self, out: &mut Vec<u16>) {
        if self.made < self.max_members {
            out.push(OP_INSERT);
            if self.ext && G::HAS_EXTEND && self.made + 2 <= self.max_members {
                out.push(OP_EXTEND);
            }
        }
        if self.rm {
            for i in 0..self.keys.len() {
                out.push(OP_REMOVE + i as u16);
            }
        }
        if self.rs {
            out.push(OP_RESERVE0);
            out.push(OP_RESERVE0 + 1);
            out.push(OP_RESERVE0 + 2);
        }
    }
    fn do_op(&mut self, op: u16) {
        let home = self.home;
        match op {
            OP_INSERT => self.insert_known(),
            OP_EXTEND => {
                let (a, ma) = self.new_member(true);
                let (b, mb) = self.new_member(true);
                with(|w| w.ev(Ev::Op(OP_EXTEND as u8, a, b)));
                let nohint = self.nohint;
                self.g.as_mut().unwrap().g_extend(vec![ma, mb], nohint);
            }
            3..=5 => {
                let n = [0usize, 1, 3][(op - OP_RESERVE0) as usize];
                with(|w| w.ev(Ev::Op(op as u8, n as u32, 0)));
                let before = self.g.as_ref().unwrap().g_capacity();
                self.g.as_mut().unwrap().g_reserve(n);
                let (after, len) = (self.g.as_ref().unwrap().g_capacity(), self.g.as_ref().unwrap().g_len());
                if after < before || after < len + n {
                    with(|w| w.violate(home, || format!("reserve({}) left capacity {} (was {}) with len {}", n, after, before, len)));
                }
            }
            r => {
                let idx = (r - OP_REMOVE) as usize;
                let k = self.keys[idx];
                let victim: Option<u32> = with(|w| {
                    w.ev(Ev::Op(1, idx as u32, 0));
                    w.combs[0].children.iter().copied().find(|&c| w.children[c as usize].slot == idx as u16 && w.children[c as usize].role_tag != TAG_UNKNOWN_SLOT)
                });
                let unknown = with(|w| w.combs[0].children.iter().filter(|&&c| w.children[c as usize].role_tag == TAG_UNKNOWN_SLOT).count());
                let polls_before = with(|w| w.total_child_polls);
                let got = self.g.as_mut().unwrap().g_remove(k);
                match victim {
                    Some(v) => {
                        let dropped = with_drops(|d| d.children[v as usize]);
                        with(|w| {
                            if !got {
                                w.violate(home, || format!("remove({:?}) returned false for a live member", k));
                            } else if dropped != 1 {
                                w.violate(home, || format!("remove({:?}) returned true but the member was not dropped inside the call (drops: {})", k, dropped));
                            }
                            if got {
                                w.detach(v);
                            }
                        });
                    }
                    None => {
                        if got && unknown == 0 {
                            with(|w| w.violate(home, || format!("remove({:?}) returned true although no live member holds that key", k)));
                        } else if got {
                            // a member with an unknown key was removed: find it by its drop record
                            with(|w| {
                                let cand: Vec<u32> = w.combs[0].children.iter().copied().filter(|&c| w.children[c as usize].role_tag == TAG_UNKNOWN_SLOT).collect();
                                let gone: Vec<u32> = with_drops(|d| cand.iter().copied().filter(|&c| d.children[c as usize] > 0).collect());
                                if gone.len() != 1 {
                                    w.violate(home, || format!("remove({:?}) returned true but {} members were dropped", k, gone.len()));
                                }
                                for g in gone {
                                    w.detach(g);
                                }
                            });
                        }
                    }
                }
                with(|w| {
                    if w.total_child_polls != polls_before {
                        w.violate(3, || "remove polled a member".to_string());
                    }
                });
            }
        }
    }
    fn after_step(&mut self) {
        self.view_check("after step");
    }
    fn finish(&mut self) {}
}

fn mk_fut(id: u32) -> Node {
    Node::Leaf(Leaf { id })
}
fn mk_str(id: u32) -> SNode {
    SNode::Leaf(SLeaf { id })
}

fn setup<G: GroupApi + 'static>(item: &PItem, g: G, is_stream: bool, mk: fn(u32) -> G::Member, iter_members: usize, nested: Option<(u32, G::Member)>) {
    let home = if is_stream { 12 } else { 11 };
    let mm = item.u("mm", 3);
    let specs: Vec<Spec> = (0..mm.max(8)).map(|i| spec_for(item, i)).collect();
    let mut s = GroupSubject { g: Some(g), home, is_stream, keys: Vec::new(), made: iter_members, max_members: mm, rm: item.u("rm", 1) != 0, rs: item.u("rs", 0) != 0, ext: item.u("ext", 0) != 0, nohint: item.u("ext", 0) == 2, specs, mk, nam: item.u("nam", 0), na: item.u("na", 1) as u16 };
    if let Some((id, m)) = nested {
        // one member is itself a combinator (one level of nesting)
        s.insert_member(id, m);
    }
    for _ in 0..item.u("init", 0) {
        s.insert_known();
    }
    s.view_check("after construction");
    run(Box::new(s));
}

fn nested_fut(item: &PItem) -> Option<(u32, Node)> {
    let nest = item.s("nest");
    if nest.is_empty() {
        return None;
    }
    let ifam = crate::futs::fam_of(nest);
    let child = with(|w| w.new_child(0, 0, false, true, Spec::default()));
    let k2 = with(|w| w.new_comb(ifam, child, crate::futs::selective(ifam), crate::futs::concurrent(ifam), home_of(ifam)));
    let inner = crate::futs::build(item, ifam, item.s("ncont"), item.u("nin", 2), k2, 1);
    Some((child, Node::Inner(NestFut(Nest { child, comb: k2, inner: Some(inner) }))))
}

fn nested_str(item: &PItem) -> Option<(u32, SNode)> {
    let nest = item.s("nest");
    if nest.is_empty() {
        return None;
    }
    let ifam = crate::strs::fam_of(nest);
    let child = with(|w| w.new_child(0, 0, true, true, Spec::default()));
    let k2 = with(|w| w.new_comb(ifam, child, crate::strs::selective(ifam), crate::strs::concurrent(ifam), home_of(ifam)));
    let inner = crate::strs::build(item, ifam, item.s("ncont"), item.u("nin", 2), k2, 1);
    Some((child, SNode::Inner(NestStr { child, comb: k2, inner: Some(inner) })))
}

pub fn runner(item: &PItem) {
    let is_stream = match item.s("fam") {
        "fgroup" => false,
        "sgroup" => true,
        other => panic!("unknown family {}", other),
    };
    let fam = if is_stream { Fam::StrGroup } else { Fam::FutGroup };
    let keyed = item.u("keyed", 0) != 0;
    let cap = item.u("cap", 0);
    let iter_n = item.u("iter", 0);
    with(|w| w.new_comb(fam, NONE, STD, true, home_of(fam)));
    let specs: Vec<Spec> = (0..8).map(|i| spec_for(item, i)).collect();
    if !is_stream {
        let g: FutureGroup<Node> = if iter_n > 0 {
            let ms: Vec<Node> = (0..iter_n)
                .map(|i| {
                    let id = with(|w| {
                        let id = w.new_child(0, 0, false, false, specs[i]);
                        w.children[id as usize].role_tag = TAG_UNKNOWN_SLOT;
                        id
                    });
                    mk_fut(id)
                })
                .collect();
            if item.u("ext", 0) == 2 {
                let mut it = ms.into_iter();
                core::iter::from_fn(move || it.next()).collect()
            } else {
                ms.into_iter().collect()
            }
        } else if cap == 0 {
            FutureGroup::new()
        } else {
            FutureGroup::with_capacity(cap)
        };
        let nested = nested_fut(item);
        if keyed {
            setup(item, g.keyed(), false, mk_fut, iter_n, nested);
        } else {
            setup(item, g, false, mk_fut, iter_n, nested);
        }
    } else {
        let g: StreamGroup<SNode> = if iter_n > 0 {
            let ms: Vec<SNode> = (0..iter_n)
                .map(|i| {
                    let id = with(|w| {
                        let id = w.new_child(0, 0, true, false, specs[i]);
                        w.children[id as usize].role_tag = TAG_UNKNOWN_SLOT;
                        id
                    });
                    mk_str(id)
                })
                .collect();
            if item.u("ext", 0) == 2 {
                let mut it = ms.into_iter();
                core::iter::from_fn(move || it.next()).collect()
            } else {
                ms.into_iter().collect()
            }
        } else if cap == 0 {
            StreamGroup::new()
        } else {
            StreamGroup::with_capacity(cap)
        };
        let nested = nested_str(item);
        if keyed {
            setup(item, g.keyed(), true, mk_str, iter_n, nested);
        } else {
            setup(item, g, true, mk_str, iter_n, nested);
        }
    }
}
