//! merge / zip / chain over tuples, arrays and Vecs, `StreamExt::{merge, zip, chain}`,
//! stream `wait_until`, with optional one level of nesting.

use futures_concurrency::prelude::*;
use futures_concurrency::stream::StreamExt as FcStreamExt;
use futures_core::Stream;
use polldfs_core::*;
use crate::*;

pub struct StrSubject(pub BoxStr);
impl Subject for StrSubject {
    fn poll(&mut self, cx: &mut std::task::Context<'_>) -> Polled {
        match self.0.as_mut().poll_next(cx) {
            std::task::Poll::Pending => Polled::Pending,
            std::task::Poll::Ready(Some(o)) => Polled::Item(o, NONE),
            std::task::Poll::Ready(None) => Polled::End,
        }
    }
}

pub fn fam_of(s: &str) -> Fam {
    match s {
        "merge" => Fam::Merge,
        "zip" => Fam::Zip,
        "chain" => Fam::Chain,
        "wait" => Fam::WaitStr,
        other => panic!("unknown family {}", other),
    }
}

fn bx<S: Stream + 'static>(s: S, m: impl Fn(S::Item) -> Out + 'static) -> BoxStr {
    Box::pin(MapStr::new(s, m))
}

fn id(o: Out) -> Out {
    o
}
fn row<C: Flat>(c: C) -> Out {
    Out::L(c.flat())
}

pub fn concurrent(f: Fam) -> bool {
    matches!(f, Fam::Merge | Fam::Zip)
}
pub fn selective(f: Fam) -> bool {
    STD && matches!(f, Fam::Merge | Fam::Zip)
}

fn inner_spec(item: &PItem, slot: usize) -> Spec {
    let nv = item.u("inv", 0);
    let al = item.u("ial", 0);
    Spec { never: slot < 64 && (nv >> slot) & 1 == 1, always: slot < 64 && (al >> slot) & 1 == 1, can_err: false, eager: false, lazy: false }
}

fn snodes(item: &PItem, comb: u16, n: usize, depth: usize) -> Vec<SNode> {
    let nest = item.s("nest");
    let npos = item.u("npos", 0);
    let v: Vec<_> = (0..n)
        .map(|slot| {
            if depth == 0 && !nest.is_empty() && slot == npos {
                let ifam = fam_of(nest);
                let child = with(|w| w.new_child(comb, slot as u16, true, true, Spec::default()));
                let k2 = with(|w| w.new_comb(ifam, child, selective(ifam), concurrent(ifam), home_of(ifam)));
                let inner = build(item, ifam, item.s("ncont"), item.u("nin", 2), k2, 1);
                SNode::Inner(NestStr { child, comb: k2, inner: Some(inner) })
            } else {
                let id = with(|w| w.new_child(comb, slot as u16, true, false, if depth == 0 { spec_for(item, slot) } else { inner_spec(item, slot) }));
                // `nam` = mask of inputs that stay Pending forever once they have produced `na` items
                if depth == 0 && slot < 64 && (item.u("nam", 0) >> slot) & 1 == 1 {
                    let k = item.u("na", 1) as u16;
                    with(|w| w.children[id as usize].never_after = k);
                }
                SNode::Leaf(SLeaf { id })
            }
        })
        .collect();
    crate::shape_vec(item, v)
}

pub fn build(item: &PItem, fam: Fam, cont: &str, n: usize, comb: u16, depth: usize) -> BoxStr {
    let cont = if cont.is_empty() { "vec" } else { cont };
    match fam {
        Fam::Merge => {
            let nodes = snodes(item, comb, n, depth);
            match cont {
                #[cfg(any(feature = "cfg-std", feature = "cfg-alloc"))]
                "vec" => bx(nodes.merge(), id),
                "array" => with_array!(n, nodes, a => bx(a.merge(), id)),
                "tuple" => {
                    if n == 0 {
                        bx(().merge(), |x: core::convert::Infallible| match x {})
                    } else {
                        with_tuple!(n, nodes, t => bx(t.merge(), id))
                    }
                }
                "ext" => {
                    let mut it = nodes.into_iter();
                    let (a, b) = (it.next().unwrap(), it.next().unwrap());
                    bx(FcStreamExt::merge(a, b), id)
                }
                other => panic!("container {} not available in this configuration", other),
            }
        }
        Fam::Zip => {
            let nodes = snodes(item, comb, n, depth);
            match cont {
                #[cfg(any(feature = "cfg-std", feature = "cfg-alloc"))]
                "vec" => bx(nodes.zip(), row),
                "array" => with_array!(n, nodes, a => bx(a.zip(), row)),
                "tuple" => with_tuple!(n, nodes, t => bx(t.zip(), row)),
                "ext" => {
                    let mut it = nodes.into_iter();
                    let (a, b) = (it.next().unwrap(), it.next().unwrap());
                    bx(FcStreamExt::zip(a, b), row)
                }
                other => panic!("container {} not available in this configuration", other),
            }
        }
        Fam::Chain => {
            let nodes = snodes(item, comb, n, depth);
            match cont {
                #[cfg(any(feature = "cfg-std", feature = "cfg-alloc"))]
                "vec" => bx(nodes.chain(), id),
                "array" => with_array!(n, nodes, a => bx(a.chain(), id)),
                "tuple" => with_tuple!(n, nodes, t => bx(t.chain(), id)),
                "ext" => {
                    let mut it = nodes.into_iter();
                    let (a, b) = (it.next().unwrap(), it.next().unwrap());
                    bx(FcStreamExt::chain(a, b), id)
                }
                other => panic!("container {} not available in this configuration", other),
            }
        }
        Fam::WaitStr => {
            // slot 0 = deadline (future), slot 1 = inner stream
            let d = with(|w| w.new_child(comb, 0, false, false, spec_for(item, 0)));
            let i = with(|w| w.new_child(comb, 1, true, false, spec_for(item, 1)));
            bx(FcStreamExt::wait_until(SLeaf { id: i }, Leaf { id: d }), id)
        }
        other => panic!("family {:?} is not a stream family", other),
    }
}

