//! join / try_join / race / race_ok / future wait_until driver (see drivers/src/futs.rs).
use polldfs_core::*;
use polldfs_drivers::futs::*;
use polldfs_drivers::*;

fn runner(item: &PItem) {
    let fam = fam_of(item.s("fam"));
    let n = item.u("n", 2);
    let k = with(|w| w.new_comb(fam, NONE, selective(fam), concurrent(fam), home_of(fam)));
    let fut = build(item, fam, item.s("cont"), n, k, 0);
    run(Box::new(FutSubject(fut)));
}

fn main() {
    driver_main("mc_futures", runner);
}
