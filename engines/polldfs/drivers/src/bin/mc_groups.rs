//! FutureGroup / StreamGroup driver (see drivers/src/groups.rs).
#[cfg(any(feature = "cfg-std", feature = "cfg-alloc"))]
fn main() {
    polldfs_drivers::driver_main("mc_groups", polldfs_drivers::groups::runner);
}
#[cfg(not(any(feature = "cfg-std", feature = "cfg-alloc")))]
fn main() {
    eprintln!("groups need the alloc feature");
    std::process::exit(2);
}
