//! concurrent-stream driver (see drivers/src/co.rs).
#[cfg(any(feature = "cfg-std", feature = "cfg-alloc"))]
fn main() {
    polldfs_drivers::driver_main("mc_costream", polldfs_drivers::co::runner);
}
#[cfg(not(any(feature = "cfg-std", feature = "cfg-alloc")))]
fn main() {
    eprintln!("concurrent streams need the alloc feature");
    std::process::exit(2);
}
