//! merge / zip / chain / stream wait_until driver (see drivers/src/strs.rs).
use polldfs_core::*;
use polldfs_drivers::strs::*;
use polldfs_drivers::*;

fn runner(item: &PItem) {
    let fam = fam_of(item.s("fam"));
    let n = item.u("n", 2);
    let k = with(|w| w.new_comb(fam, NONE, selective(fam), concurrent(fam), home_of(fam)));
    let s = build(item, fam, item.s("cont"), n, k, 0);
    run(Box::new(StrSubject(s)));
}

fn main() {
    driver_main("mc_streams", runner);
}
