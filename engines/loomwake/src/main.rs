//! Engine B: exhaustive (preemption-bounded, DPOR) exploration of thread interleavings of the
//! waker protocol of futures-concurrency under loom. The crate is built with
//! `--cfg fc_verif_loom`, which makes its readiness `Mutex` a `loom::sync::Mutex`.
//!
//! usage: loomwake <scenario> [--bound N | --unbounded] [--spurious K] [--wake-locked]
//!                 [--checkpoint FILE] [--max-branches N]
//! prints one JSON line {scenario, iterations, bound, ..}; a lost wake-up shows up as a deadlock
//! (the executor parks until the waker of its *latest* poll is woken) and a lock cycle as a
//! deadlock too; loom panics in both cases and the process exits with 101.

use futures_concurrency::future::FutureGroup;
use futures_concurrency::prelude::*;
use futures_concurrency::stream::StreamGroup;
use futures_core::Stream;
use loom::sync::atomic::{AtomicBool, Ordering};
use loom::sync::{Condvar, Mutex};
use loom::thread;
use std::future::Future;
use std::pin::Pin;
use std::sync::atomic::AtomicUsize;
use std::sync::Arc;
use std::task::{Context, Poll, Wake, Waker};

static ITER: AtomicUsize = AtomicUsize::new(0);

// ------------------------------------------------------------------------------------------
// event sources ("register, then re-check": race free by construction)
// ------------------------------------------------------------------------------------------

struct Ev {
    ready: AtomicBool,
    /// the future / stream built on this event has observed it (returned Ready / Some)
    consumed: AtomicBool,
    slot: Mutex<Option<Waker>>,
}

impl Ev {
    fn new() -> Arc<Ev> {
        Arc::new(Ev { ready: AtomicBool::new(false), consumed: AtomicBool::new(false), slot: Mutex::new(None) })
    }
    /// run by an event thread
    fn fire(&self, wake_locked: bool) {
        self.ready.store(true, Ordering::SeqCst);
        if wake_locked {
            // some real event sources wake while holding their own lock
            let g = self.slot.lock().unwrap();
            if let Some(w) = g.as_ref() {
                w.wake_by_ref();
            }
        } else {
            let w = self.slot.lock().unwrap().take();
            if let Some(w) = w {
                w.wake();
            }
        }
    }
    /// a repeated / stale wake-up through whatever waker is still registered
    fn poke(&self) {
        let w = self.slot.lock().unwrap().clone();
        if let Some(w) = w {
            w.wake();
        }
    }
    fn register(&self, cx: &Context<'_>) -> bool {
        *self.slot.lock().unwrap() = Some(cx.waker().clone());
        self.ready.load(Ordering::SeqCst)
    }
}

struct EvFut {
    ev: Arc<Ev>,
    val: usize,
}
impl Future for EvFut {
    type Output = usize;
    fn poll(self: Pin<&mut Self>, cx: &mut Context<'_>) -> Poll<usize> {
        if self.ev.register(cx) {
            self.ev.consumed.store(true, Ordering::SeqCst);
            Poll::Ready(self.val)
        } else {
            Poll::Pending
        }
    }
}

struct EvTry(EvFut);
impl Future for EvTry {
    type Output = Result<usize, ()>;
    fn poll(mut self: Pin<&mut Self>, cx: &mut Context<'_>) -> Poll<Result<usize, ()>> {
        Pin::new(&mut self.0).poll(cx).map(Ok)
    }
}

/// yields `val` once its event has fired, then ends
struct EvStream {
    ev: Arc<Ev>,
    val: usize,
    done: bool,
}
impl Stream for EvStream {
    type Item = usize;
    fn poll_next(mut self: Pin<&mut Self>, cx: &mut Context<'_>) -> Poll<Option<usize>> {
        if self.done {
            return Poll::Ready(None);
        }
        if self.ev.register(cx) {
            self.done = true;
            Poll::Ready(Some(self.val))
        } else {
            Poll::Pending
        }
    }
}

fn fut(ev: &Arc<Ev>, val: usize) -> EvFut {
    EvFut { ev: ev.clone(), val }
}
fn tfut(ev: &Arc<Ev>, val: usize) -> EvTry {
    EvTry(fut(ev, val))
}
fn strm(ev: &Arc<Ev>, val: usize) -> EvStream {
    EvStream { ev: ev.clone(), val, done: false }
}

// ------------------------------------------------------------------------------------------
// wake-only executor with a fresh waker per poll
// ------------------------------------------------------------------------------------------

struct Exec {
    woken: Mutex<usize>,
    cv: Condvar,
}
struct TaskWaker {
    gen: usize,
    ex: Arc<Exec>,
}
impl Wake for TaskWaker {
    fn wake(self: Arc<Self>) {
        self.wake_by_ref()
    }
    fn wake_by_ref(self: &Arc<Self>) {
        let mut g = self.ex.woken.lock().unwrap();
        if *g < self.gen {
            *g = self.gen;
        }
        drop(g);
        self.ex.cv.notify_all();
    }
}

struct Driver {
    ex: Arc<Exec>,
    gen: usize,
    spurious: usize,
}
impl Driver {
    fn new(spurious: usize) -> Driver {
        Driver { ex: Arc::new(Exec { woken: Mutex::new(0), cv: Condvar::new() }), gen: 0, spurious }
    }
    /// poll `f` until it is ready; between polls park until the waker of the LATEST poll was woken
    fn drive<T>(&mut self, mut f: impl FnMut(&mut Context<'_>) -> Poll<T>) -> T {
        loop {
            self.gen += 1;
            let w: Waker = Arc::new(TaskWaker { gen: self.gen, ex: self.ex.clone() }).into();
            let mut cx = Context::from_waker(&w);
            if let Poll::Ready(v) = f(&mut cx) {
                return v;
            }
            if self.spurious > 0 {
                // a poll nobody asked for, with yet another waker
                self.spurious -= 1;
                continue;
            }
            let mut g = self.ex.woken.lock().unwrap();
            while *g < self.gen {
                g = self.ex.cv.wait(g).unwrap();
            }
        }
    }
    fn block_on<F: Future>(&mut self, fut: F) -> F::Output {
        let mut fut = std::pin::pin!(fut);
        self.drive(|cx| fut.as_mut().poll(cx))
    }
    fn collect<S: Stream>(&mut self, s: S) -> Vec<S::Item> {
        let mut s = std::pin::pin!(s);
        let mut out = Vec::new();
        loop {
            match self.drive(|cx| s.as_mut().poll_next(cx)) {
                Some(x) => out.push(x),
                None => return out,
            }
        }
    }
}

#[derive(Clone, Copy)]
struct Opt {
    spurious: usize,
    wake_locked: bool,
}

fn events(n: usize, o: Opt) -> (Vec<Arc<Ev>>, Vec<thread::JoinHandle<()>>) {
    let evs: Vec<Arc<Ev>> = (0..n).map(|_| Ev::new()).collect();
    let hs = evs
        .iter()
        .map(|e| {
            let e = e.clone();
            thread::spawn(move || e.fire(o.wake_locked))
        })
        .collect();
    (evs, hs)
}

fn join_all(hs: Vec<thread::JoinHandle<()>>) {
    for h in hs {
        h.join().unwrap();
    }
}

fn sorted(mut v: Vec<usize>) -> Vec<usize> {
    v.sort();
    v
}

// ------------------------------------------------------------------------------------------
// scenarios
//
// The oracle is loom's own: a deadlock (the executor parks forever because the waker of its latest
// poll is never woken, or two threads wait for each other's lock) and a panic inside the crate (a
// poisoned readiness mutex, the "parent_waker not available" expect). The functional results are
// deliberately NOT asserted here: a wrong join output or merge order is the business of C04..C12,
// and must not be reported as a lost wake-up.
// ------------------------------------------------------------------------------------------

fn scenario(name: &str, o: Opt) {
    let mut d = Driver::new(o.spurious);
    match name {
        "join_vec" => {
            let (e, hs) = events(2, o);
            let _ = d.block_on(vec![fut(&e[0], 10), fut(&e[1], 11)].join());
            join_all(hs);
        }
        "join_array" => {
            let (e, hs) = events(2, o);
            let _ = d.block_on([fut(&e[0], 10), fut(&e[1], 11)].join());
            join_all(hs);
        }
        "join_tuple" => {
            let (e, hs) = events(2, o);
            let _ = d.block_on((fut(&e[0], 10), fut(&e[1], 11)).join());
            join_all(hs);
        }
        "try_join_vec" => {
            let (e, hs) = events(2, o);
            let _ = d.block_on(vec![tfut(&e[0], 10), tfut(&e[1], 11)].try_join());
            join_all(hs);
        }
        "try_join_array" => {
            let (e, hs) = events(2, o);
            let _ = d.block_on([tfut(&e[0], 10), tfut(&e[1], 11)].try_join());
            join_all(hs);
        }
        "try_join_tuple" => {
            let (e, hs) = events(2, o);
            let _ = d.block_on((tfut(&e[0], 10), tfut(&e[1], 11)).try_join());
            join_all(hs);
        }
        "merge_vec" => {
            let (e, hs) = events(2, o);
            let _ = sorted(d.collect(vec![strm(&e[0], 10), strm(&e[1], 11)].merge()));
            join_all(hs);
        }
        "merge_array" => {
            let (e, hs) = events(2, o);
            let _ = sorted(d.collect([strm(&e[0], 10), strm(&e[1], 11)].merge()));
            join_all(hs);
        }
        "merge_tuple" => {
            let (e, hs) = events(2, o);
            let _ = sorted(d.collect((strm(&e[0], 10), strm(&e[1], 11)).merge()));
            join_all(hs);
        }
        "zip_vec" => {
            let (e, hs) = events(2, o);
            let _ = d.collect(vec![strm(&e[0], 10), strm(&e[1], 11)].zip());
            join_all(hs);
        }
        "zip_array" => {
            let (e, hs) = events(2, o);
            let _ = d.collect([strm(&e[0], 10), strm(&e[1], 11)].zip());
            join_all(hs);
        }
        "zip_tuple" => {
            let (e, hs) = events(2, o);
            let _ = d.collect((strm(&e[0], 10), strm(&e[1], 11)).zip());
            join_all(hs);
        }
        "future_group" => {
            // two members; a third (already ready) one is inserted after the first Pending
            let (e, hs) = events(2, o);
            let mut g = FutureGroup::new();
            g.insert(fut(&e[0], 10));
            g.insert(fut(&e[1], 11));
            let mut out = Vec::new();
            let mut inserted = false;
            let mut g = std::pin::pin!(g);
            loop {
                let mut first_pending = false;
                let r = {
                    let gg = &mut g;
                    let fp = &mut first_pending;
                    let ins = inserted;
                    d.drive(|cx| match gg.as_mut().poll_next(cx) {
                        Poll::Pending if !ins => {
                            *fp = true;
                            Poll::Ready(None)
                        }
                        other => other,
                    })
                };
                if first_pending {
                    let e2 = Ev::new();
                    e2.ready.store(true, Ordering::SeqCst);
                    g.as_mut().get_mut().insert(fut(&e2, 12));
                    inserted = true;
                    continue;
                }
                match r {
                    Some(x) => out.push(x),
                    None => break,
                }
            }
            let _ = sorted(out);
            join_all(hs);
        }
        "stream_group" => {
            let (e, hs) = events(2, o);
            let mut g = StreamGroup::new();
            g.insert(strm(&e[0], 10));
            g.insert(strm(&e[1], 11));
            let _ = sorted(d.collect(g));
            join_all(hs);
        }
        "nested_join_join" => {
            // lock order between an inner and an outer readiness mutex
            let (e, hs) = events(2, o);
            let ready = Ev::new();
            ready.ready.store(true, Ordering::SeqCst);
            let inner = vec![fut(&e[0], 10), fut(&ready, 12)].join();
            let (a, b) = d.block_on((inner, fut(&e[1], 11)).join());
            let _ = (a, b);
            join_all(hs);
        }
        "nested_merge_merge" => {
            let (e, hs) = events(2, o);
            let inner = vec![strm(&e[0], 10)].merge();
            let _ = sorted(d.collect((inner, strm(&e[1], 11)).merge()));
            join_all(hs);
        }
        "nested_zip_merge" => {
            let (e, hs) = events(2, o);
            let inner = [strm(&e[0], 10)].merge();
            let _ = d.collect((inner, strm(&e[1], 11)).zip());
            join_all(hs);
        }
        "stale_after_done" => {
            // a repeated wake-up through a sub-waker races with completion and with the drop of the join
            let (e, hs) = events(1, o);
            let e0 = e[0].clone();
            let poker = thread::spawn(move || {
                e0.poke();
                e0.poke();
            });
            let ready = Ev::new();
            ready.ready.store(true, Ordering::SeqCst);
            let _ = d.block_on(vec![fut(&e[0], 10), fut(&ready, 11)].join());
            join_all(hs);
            poker.join().unwrap();
        }
        "drop_midway" => {
            // the combinator is polled once and dropped while the event threads still fire
            let (e, hs) = events(2, o);
            {
                let j = vec![fut(&e[0], 10), fut(&e[1], 11)].join();
                let mut j = std::pin::pin!(j);
                let w: Waker = Arc::new(TaskWaker { gen: 1, ex: d.ex.clone() }).into();
                let mut cx = Context::from_waker(&w);
                let _ = j.as_mut().poll(&mut cx);
            }
            join_all(hs);
        }
        "join_vec3_never" => {
            // three children, one of which never fires: its readiness bit history must not mask the others
            let (e, hs) = events(2, o);
            let never = Ev::new();
            let j = vec![fut(&e[0], 10), fut(&never, 12), fut(&e[1], 11)].join();
            let mut j = std::pin::pin!(j);
            // the join can never resolve; drive it until both live children have been polled to completion
            // (if a wake-up is lost the executor parks forever and loom reports the deadlock)
            let e0 = e[0].clone();
            let e1 = e[1].clone();
            d.drive(|cx| {
                let r = j.as_mut().poll(cx);
                assert!(r.is_pending());
                if e0.consumed.load(Ordering::SeqCst) && e1.consumed.load(Ordering::SeqCst) {
                    Poll::Ready(())
                } else {
                    Poll::Pending
                }
            });
            join_all(hs);
        }
        "merge_vec3_never" => {
            let (e, hs) = events(2, o);
            let never = Ev::new();
            let m = vec![strm(&e[0], 10), strm(&never, 12), strm(&e[1], 11)].merge();
            let mut m = std::pin::pin!(m);
            let mut got = 0;
            while got < 2 {
                if d.drive(|cx| m.as_mut().poll_next(cx)).is_some() {
                    got += 1;
                }
            }
            join_all(hs);
        }
        "future_group_remove" => {
            // a member is removed by the owner while its waker fires on another thread
            let (e, hs) = events(2, o);
            let mut g = FutureGroup::new();
            let k0 = g.insert(fut(&e[0], 10));
            g.insert(fut(&e[1], 11));
            let mut g = std::pin::pin!(g);
            let mut removed = false;
            loop {
                let mut first_pending = false;
                let r = {
                    let gg = &mut g;
                    let fp = &mut first_pending;
                    let rem = removed;
                    d.drive(|cx| match gg.as_mut().poll_next(cx) {
                        Poll::Pending if !rem => {
                            *fp = true;
                            Poll::Ready(None)
                        }
                        other => other,
                    })
                };
                if first_pending {
                    g.as_mut().get_mut().remove(k0);
                    removed = true;
                    continue;
                }
                if r.is_none() {
                    break;
                }
            }
            join_all(hs);
        }
        "stream_group_insert" => {
            let (e, hs) = events(2, o);
            let mut g = StreamGroup::new();
            g.insert(strm(&e[0], 10));
            g.insert(strm(&e[1], 11));
            let mut g = std::pin::pin!(g);
            let mut inserted = false;
            loop {
                let mut first_pending = false;
                let r = {
                    let gg = &mut g;
                    let fp = &mut first_pending;
                    let ins = inserted;
                    d.drive(|cx| match gg.as_mut().poll_next(cx) {
                        Poll::Pending if !ins => {
                            *fp = true;
                            Poll::Ready(None)
                        }
                        other => other,
                    })
                };
                if first_pending {
                    let e2 = Ev::new();
                    e2.ready.store(true, Ordering::SeqCst);
                    g.as_mut().get_mut().insert(strm(&e2, 12));
                    inserted = true;
                    continue;
                }
                if r.is_none() {
                    break;
                }
            }
            join_all(hs);
        }
        "group_nested_join" => {
            // a FutureGroup member that is itself a join: inner and outer readiness mutexes
            let (e, hs) = events(2, o);
            let ready = Ev::new();
            ready.ready.store(true, Ordering::SeqCst);
            let mut g = FutureGroup::new();
            g.insert(vec![fut(&e[0], 10), fut(&ready, 12)].join());
            g.insert(vec![fut(&e[1], 11)].join());
            let _ = d.collect(g);
            join_all(hs);
        }
        other => panic!("unknown scenario {}", other),
    }
}

pub const SCENARIOS: &[&str] = &[
    "join_vec", "join_array", "join_tuple", "try_join_vec", "try_join_array", "try_join_tuple", "merge_vec", "merge_array", "merge_tuple",
    "zip_vec", "zip_array", "zip_tuple", "future_group", "stream_group", "nested_join_join", "nested_merge_merge", "nested_zip_merge",
    "stale_after_done", "drop_midway", "join_vec3_never", "merge_vec3_never", "future_group_remove", "stream_group_insert", "group_nested_join",
];

fn main() {
    let args: Vec<String> = std::env::args().collect();
    if args.len() < 2 || args[1] == "--list" {
        for s in SCENARIOS {
            println!("{}", s);
        }
        return;
    }
    let name = args[1].clone();
    let get = |n: &str| args.iter().position(|a| a == n).and_then(|i| args.get(i + 1)).cloned();
    let bound: Option<usize> = if args.iter().any(|a| a == "--unbounded") { None } else { Some(get("--bound").and_then(|s| s.parse().ok()).unwrap_or(2)) };
    let o = Opt { spurious: get("--spurious").and_then(|s| s.parse().ok()).unwrap_or(1), wake_locked: args.iter().any(|a| a == "--wake-locked") };
    let mut b = loom::model::Builder::new();
    b.preemption_bound = bound;
    b.max_branches = get("--max-branches").and_then(|s| s.parse().ok()).unwrap_or(100_000);
    if let Some(cp) = get("--checkpoint") {
        b.checkpoint_file = Some(cp.into());
        b.checkpoint_interval = 1;
    }
    let n2 = name.clone();
    let t0 = std::time::Instant::now();
    b.check(move || {
        ITER.fetch_add(1, std::sync::atomic::Ordering::Relaxed);
        scenario(&n2, o);
    });
    println!(
        "{{\"scenario\":\"{}\",\"iterations\":{},\"preemption_bound\":{},\"spurious\":{},\"wake_locked\":{},\"wall_s\":{:.3}}}",
        name,
        ITER.load(std::sync::atomic::Ordering::Relaxed),
        bound.map(|b| b.to_string()).unwrap_or_else(|| "null".into()),
        o.spurious,
        o.wake_locked,
        t0.elapsed().as_secs_f64()
    );
}
